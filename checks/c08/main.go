// C08 — HTTP/2 relay delivers each stream's frames faithfully for any framing and order.
//
// The real h2.Config.Proxy relay runs between two frame-level endpoints over simnet under the gosim
// scheduler. Frame scripts are enumerated from per-stream lifecycles (fragmented header blocks, priority,
// padded DATA, trailers, RST, PRIORITY, PUSH_PROMISE, SETTINGS/PING/GOAWAY), interleavings of several
// streams, transport segmentations and receiver window schedules; per stream and direction the receiver's
// event list (header blocks decoded with its own HPACK state in arrival order) must equal the sender's.
package main

import (
	"encoding/json"
	"fmt"
	"net"
	"os"
	"strings"
	"time"

	"github.com/google/martian/v3/zzverif/vrt"
	"github.com/google/martian/v3/zzverif/vtls"

	hw "verif/checks/h2world"
	"verif/lib"
)

type step struct {
	Client []hw.Spec `json:"c,omitempty"`
	Server []hw.Spec `json:"s,omitempty"`
	Resume bool      `json:"resume,omitempty"` // the stalled endpoint starts reading before this step
	// XC / XS: frames written through the check's own writer (ext.go); an endpoint uses either Client/Server or
	// XC/XS within one step
	XC []xspec `json:"xc,omitempty"`
	XS []xspec `json:"xs,omitempty"`
}

type scenario struct {
	Fam        string `json:"fam"`
	Name       string `json:"name"`
	PrefaceSeg int    `json:"pseg,omitempty"`
	Seg        int    `json:"seg,omitempty"` // both endpoints write in Seg-byte pieces
	Steps      []step `json:"steps"`
	Bound      int    `json:"bound"`
	Class      string `json:"class,omitempty"` // scenario attribute used in signatures (e.g. "continuation")
	Stall      string `json:"stall,omitempty"` // "server" / "client": that endpoint does not read (tiny socket buffer) until a step with Resume
	// audit extensions
	Proc        string  `json:"proc,omitempty"`        // stream processor chain (see factories)
	PrefaceJoin []xspec `json:"prefacejoin,omitempty"` // own-writer frames that share one write with the client preface
	ShortReads  bool    `json:"shortreads,omitempty"`  // every read of the relay may return a single byte (an explored deviation)
	Wire        bool    `json:"wire,omitempty"`        // judge the bytes the relay wrote (priority sections)
	NoDeepen    bool    `json:"nodeepen,omitempty"`    // thorough keeps the quick bound (the scenario is too large for one more deviation)
}

type finding struct{ Sig, Desc string }

var reqFields = [][2]string{{":method", "POST"}, {":scheme", "https"}, {":path", "/svc/m"}, {":authority", "origin.test"}, {"x-req", "one"}, {"x-long", strings.Repeat("v", 40)}}
var resFields = [][2]string{{":status", "200"}, {"content-type", "text/plain"}, {"x-res", "two"}}
var trailerFields = [][2]string{{"x-trailer", "done"}, {"x-sum", "42"}}

func settingsStep() step {
	return step{Client: []hw.Spec{{T: "settings", Settings: [][2]uint32{{3, 100}}}}, Server: []hw.Spec{{T: "settings", Settings: [][2]uint32{{3, 128}}}}}
}

func run(sc scenario) (body func(), check func(r *vrt.Result) []finding) {
	var w *hw.World
	var prefaceErr error
	var ownC, ownS *ownWriter
	body = func() {
		opts := hw.Options{Factories: factories(sc.Proc)}
		ownC, ownS = newOwnWriter(), newOwnWriter()
		var stall *vrt.Gate
		switch sc.Stall {
		case "server":
			stall = &vrt.Gate{}
			opts.ServerReaderGate, opts.ProxyToServerCap = stall, 48
		case "client":
			stall = &vrt.Gate{}
			opts.ClientReaderGate, opts.ProxyToClientCap = stall, 48
		}
		w = hw.New(opts)
		// spawning the relay is not a scheduling point: nothing has run yet, the taps below see every byte
		w.ClientProxy.KeepWritten, w.ClientProxy.ShortReads = sc.Wire, sc.ShortReads
		dial := vtls.DialHook
		vtls.DialHook = func(network, addr string, cfg *vtls.Config) (net.Conn, error) {
			c, err := dial(network, addr, cfg)
			if w.ServerProxy != nil {
				w.ServerProxy.KeepWritten, w.ServerProxy.ShortReads = sc.Wire, sc.ShortReads
			}
			return c, err
		}
		if len(sc.PrefaceJoin) > 0 {
			b := []byte(hw.Preface)
			for _, x := range sc.PrefaceJoin {
				fb, ev := ownC.frames(x, vrt.Tick())
				b = append(b, fb...)
				if ev != nil {
					ownC.sent = append(ownC.sent, *ev)
				}
			}
			_, prefaceErr = w.Client.Conn.Write(b)
		} else {
			prefaceErr = w.Client.WritePreface(sc.PrefaceSeg)
		}
		vrt.WaitQuiescent()
		if w.Server != nil {
			w.Client.SetSegment(sc.Seg)
			w.Server.SetSegment(sc.Seg)
			for _, st := range sc.Steps {
				if st.Resume && stall != nil {
					stall.Open()
				}
				var ts []*vrt.Thread
				if len(st.Client) > 0 {
					ts = append(ts, w.Run(w.Client, st.Client))
				}
				if len(st.Server) > 0 {
					ts = append(ts, w.Run(w.Server, st.Server))
				}
				for _, xr := range []struct {
					e  *hw.Endpoint
					o  *ownWriter
					xs []xspec
				}{{w.Client, ownC, st.XC}, {w.Server, ownS, st.XS}} {
					if xr := xr; len(xr.xs) > 0 {
						ts = append(ts, vrt.GoNamed(xr.e.Name+"-writer", func() {
							for _, x := range xr.xs {
								if xr.o.write(xr.e, x, vrt.Tick) != nil {
									return
								}
							}
						}))
					}
				}
				vrt.WaitQuiescent()
				_ = ts
			}
		}
		for _, e := range w.Client.Recv {
			vrt.Log("client<- %s", e)
		}
		if w.Server != nil {
			for _, e := range w.Server.Recv {
				vrt.Log("server<- %s", e)
			}
		}
		vrt.Log("relay returned=%v err=%v server=%v errors=%q", w.ProxyRet, w.ProxyErr, w.Server != nil, w.Errors)
	}
	check = func(r *vrt.Result) []finding {
		var out []finding
		add := func(sig, format string, a ...interface{}) { out = append(out, finding{sig, fmt.Sprintf(format, a...)}) }
		classFor := func(dir string) string {
			var parts []string
			if sc.Fam == "window" {
				parts = append(parts, "window_blocked")
			}
			cont, pushc := false, false
			for _, st := range sc.Steps {
				specs := st.Client
				if dir == "s2c" {
					specs = st.Server
				}
				for _, sp := range specs {
					if sp.T == "headers" && sp.Frags > 1 {
						cont = true
					}
					if sp.T == "push" && sp.Frags > 1 {
						pushc = true
					}
				}
				xs := st.XC
				if dir == "s2c" {
					xs = st.XS
				}
				for _, x := range xs {
					if x.XT == "block" && len(x.Cuts) > 0 {
						if x.T == "push" {
							pushc = true
						} else {
							cont = true
						}
					}
				}
			}
			if pushc {
				parts = append(parts, "push_continuation")
			} else if cont {
				parts = append(parts, "continuation")
			}
			if extClasses[sc.Class] {
				parts = append(parts, sc.Class) // families added by the audit name their class in the signature
			}
			return strings.Join(parts, "+")
		}
		if r.Outcome != "ok" {
			add("outcome:"+r.Outcome, "execution ended with %s: %s", r.Outcome, firstLine(r.Panic))
			return out
		}
		failed := map[string]string{}
		// the relay closes both connections when a direction fails, so the other direction then fails with "use of
		// closed network connection": that one is a consequence, whichever of the two goroutines logs first
		cause := 0
		for i, m := range w.Errors {
			if !strings.Contains(m, "use of closed network connection") {
				cause = i
				break
			}
		}
		for i, m := range w.Errors {
			if i != cause {
				continue
			}
			d, c := hw.ErrorClass(m)
			if _, ok := failed[d]; !ok {
				failed[d] = c
				add(d+":relay_direction_failed:"+c+":"+classFor(d), "the relay stopped relaying %s: %s", d, m)
			}
		}
		if len(failed) > 0 {
			// once a direction fails the relay ends the whole session: everything after is missing in both
			// directions; the failure itself is the finding
			return out
		}
		if w.Server == nil || w.ProxyRet {
			cls := "preface_whole"
			if sc.PrefaceSeg > 0 {
				cls = "preface_split"
			}
			add("relay_gave_up:"+cls, "relay returned early (dialled=%v, err=%v, preface write err=%v)", w.Server != nil, w.ProxyErr, prefaceErr)
			return out
		}
		cmp := func(dir string, sent, recv []hw.Event) {
			sm := hw.PerStream(sent, "wu")
			rm := hw.PerStream(recv, "wu")
			ids := map[uint32]bool{}
			for id := range sm {
				ids[id] = true
			}
			for id := range rm {
				ids[id] = true
			}
			for id := range ids {
				s := hw.Normalize(sm[id])
				rr := hw.Normalize(rm[id])
				if hw.Join(s) == hw.Join(rr) {
					continue
				}
				// classify the first difference
				i := 0
				for i < len(s) && i < len(rr) && s[i] == rr[i] {
					i++
				}
				cls := ""
				switch {
				case i >= len(rr):
					cls = "missing:" + strings.ToLower(strings.Fields(s[i])[0])
				case i >= len(s):
					cls = "extra:" + strings.ToLower(strings.Fields(rr[i])[0])
				default:
					a, b := s[i], rr[i]
					switch {
					case strings.Contains(b, "err=") && !strings.HasSuffix(b, "err="):
						cls = "header_decode_error"
					case strings.HasPrefix(a, "HEADERS") && strings.HasPrefix(b, "HEADERS") && strings.Replace(a, "es=false", "es=true", 1) == b:
						cls = "headers_end_stream_invented"
					case strings.HasPrefix(a, "HEADERS") && strings.HasPrefix(b, "HEADERS"):
						cls = "headers_changed"
					case strings.HasPrefix(a, "DATA") && strings.HasPrefix(b, "DATA"):
						cls = "data_changed"
					default:
						cls = "mismatch:" + strings.ToLower(strings.Fields(a)[0]) + "->" + strings.ToLower(strings.Fields(b)[0])
					}
				}
				cls += ":" + classFor(dir)
				add(dir+":"+cls, "stream %d %s: sent [%s] but the receiver observed [%s]", id, dir, hw.Join(s), hw.Join(rr))
			}
		}
		cmp("c2s", allSent(w.Client, ownC), dropUnknown(w.Server.Recv))
		cmp("s2c", allSent(w.Server, ownS), dropUnknown(w.Client.Recv))
		// no frame delivered to an endpoint is larger than the maximum frame size that endpoint announced
		// (announcements are made in the first step of a scenario, before any other traffic)
		mfs := map[string]int{"client": 16384, "server": 16384}
		for _, st := range sc.Steps {
			for who, specs := range map[string][]hw.Spec{"client": st.Client, "server": st.Server} {
				for _, sp := range specs {
					if sp.T == "settings" {
						for _, kv := range sp.Settings {
							if kv[0] == 5 {
								mfs[who] = int(kv[1])
							}
						}
					}
				}
			}
		}
		for _, who := range []string{"client", "server"} {
			dir, recv := "c2s", w.Server.Recv
			if who == "client" {
				dir, recv = "s2c", w.Client.Recv
			}
			for _, ev := range recv {
				if ev.MaxFrame > mfs[who] {
					add(dir+":frame_exceeds_max_frame_size:"+ev.T, "the %s announced a maximum frame size of %d but received a %s frame with a %d-byte payload (stream %d)", who, mfs[who], ev.T, ev.MaxFrame, ev.Stream)
					break
				}
			}
		}
		if w.Client.Illegal != "" {
			add("s2c:frame_inside_header_block", "the client received a %s", w.Client.Illegal)
		}
		if w.Server.Illegal != "" {
			add("c2s:frame_inside_header_block", "the server received a %s", w.Server.Illegal)
		}
		if sc.Wire {
			out = append(out, wireCheck(sc, w, ownC, ownS)...)
		}
		if w.Client.RdErr != nil || w.Server.RdErr != nil {
			add("endpoint_read_error", "client read err=%v server read err=%v", w.Client.RdErr, w.Server.RdErr)
		}
		return out
	}
	return
}

func firstLine(s string) string {
	if i := strings.IndexByte(s, '\n'); i >= 0 {
		return s[:i]
	}
	return s
}

// lifecycle builds the frames of one message (request or response) on a stream.
type shape struct {
	Frags int
	Prio  bool
	HdrES bool   // END_STREAM on HEADERS (no body)
	Data  string // "", "5", "5+0es", "5p1", "5p255", "0", "3,4"
	End   string // "es" (END_STREAM on last DATA), "trailers1", "trailers2", "rst", "open"
}

func (sh shape) String() string {
	return fmt.Sprintf("frags=%d prio=%v hdrES=%v data=%s end=%s", sh.Frags, sh.Prio, sh.HdrES, sh.Data, sh.End)
}

func (sh shape) frames(stream uint32, fields [][2]string) []hw.Spec {
	var out []hw.Spec
	h := hw.Spec{T: "headers", Stream: stream, Fields: fields, Frags: sh.Frags, Prio: sh.Prio, Dep: 0, Weight: 15, EndStream: sh.HdrES}
	out = append(out, h)
	if sh.HdrES {
		return out
	}
	var datas []hw.Spec
	switch sh.Data {
	case "5":
		datas = []hw.Spec{{T: "data", Stream: stream, Len: 5}}
	case "0":
		datas = []hw.Spec{{T: "data", Stream: stream, Len: 0}}
	case "5+0es":
		datas = []hw.Spec{{T: "data", Stream: stream, Len: 5}, {T: "data", Stream: stream, Len: 0}}
	case "5p1":
		datas = []hw.Spec{{T: "data", Stream: stream, Len: 5, Pad: 1}}
	case "5p255":
		datas = []hw.Spec{{T: "data", Stream: stream, Len: 5, Pad: 255}}
	case "3,4":
		datas = []hw.Spec{{T: "data", Stream: stream, Len: 3}, {T: "data", Stream: stream, Len: 4}}
	default:
		// comma separated explicit sizes (frame-size boundaries)
		for _, f := range strings.Split(sh.Data, ",") {
			var n int
			if _, err := fmt.Sscanf(f, "%d", &n); err == nil {
				datas = append(datas, hw.Spec{T: "data", Stream: stream, Len: n})
			}
		}
	}
	switch sh.End {
	case "es":
		if len(datas) > 0 {
			datas[len(datas)-1].EndStream = true
		}
		out = append(out, datas...)
	case "trailers1", "trailers2":
		out = append(out, datas...)
		fr := 1
		if sh.End == "trailers2" {
			fr = 2
		}
		out = append(out, hw.Spec{T: "headers", Stream: stream, Fields: trailerFields, Frags: fr, EndStream: true})
	case "rst":
		out = append(out, datas...)
		out = append(out, hw.Spec{T: "rst", Stream: stream, Code: 8})
	default:
		out = append(out, datas...)
	}
	return out
}

func shapes(tier string) []shape {
	var out []shape
	datas := []string{"5", "5+0es", "5p1", "5p255", "3,4"}
	ends := []string{"es", "trailers1", "trailers2", "rst", "open"}
	for _, fr := range []int{1, 2, 3} {
		for _, pr := range []bool{false, true} {
			out = append(out, shape{Frags: fr, Prio: pr, HdrES: true})
			for _, d := range datas {
				for _, e := range ends {
					if e == "es" && d == "" {
						continue
					}
					out = append(out, shape{Frags: fr, Prio: pr, Data: d, End: e})
				}
			}
			for _, e := range []string{"trailers1", "rst", "open"} {
				out = append(out, shape{Frags: fr, Prio: pr, Data: "", End: e})
			}
		}
	}
	return out
}

func classOf(sh shape) string {
	if sh.Frags > 1 {
		return "continuation"
	}
	return ""
}

func merges(a, b []hw.Spec, f func([]hw.Spec)) {
	var rec func(i, j int, cur []hw.Spec)
	rec = func(i, j int, cur []hw.Spec) {
		if i == len(a) && j == len(b) {
			f(cur)
			return
		}
		if i < len(a) {
			rec(i+1, j, append(cur[:len(cur):len(cur)], a[i]))
		}
		if j < len(b) {
			rec(i, j+1, append(cur[:len(cur):len(cur)], b[j]))
		}
	}
	rec(0, 0, nil)
}

func scenarios(tier string) []scenario {
	var out []scenario
	shs := shapes(tier)
	// F1: single stream lifecycles, request then response (each shape in each direction)
	for i, sh := range shs {
		// pair request shape i with response shape (i*7+3)%n so that both directions see every shape
		rs := shs[(i*7+3)%len(shs)]
		out = append(out, scenario{Fam: "lifecycle", Name: "req{" + sh.String() + "} res{" + rs.String() + "}", Class: classOf(sh) + "|" + classOf(rs),
			Steps: []step{settingsStep(), {Client: sh.frames(1, reqFields)}, {Server: rs.frames(1, resFields)}}})
	}
	// F1c: DATA sizes at the max frame size boundary (default 16384, and 20000 after a SETTINGS change)
	for _, d := range []string{"16383", "16384", "16385", "32768", "16384,16384", "20000", "1,16384"} {
		for _, e := range []string{"es", "trailers1"} {
			sh := shape{Frags: 1, Data: d, End: e}
			out = append(out, scenario{Fam: "framesize", Name: "req{" + sh.String() + "} res{same}",
				Steps: []step{settingsStep(), {Client: sh.frames(1, reqFields)}, {Server: sh.frames(1, resFields)}}})
			out = append(out, scenario{Fam: "framesize", Name: "max frame size 20000: req{" + sh.String() + "} res{same}",
				Steps: []step{{Client: []hw.Spec{{T: "settings", Settings: [][2]uint32{{5, 20000}}}}, Server: []hw.Spec{{T: "settings", Settings: [][2]uint32{{5, 20000}}}}},
					{Client: sh.frames(1, reqFields)}, {Server: sh.frames(1, resFields)}}})
		}
	}
	// F1b: both directions at once (response headers already out), schedules explored
	core := []shape{{Frags: 1, Data: "3,4", End: "es"}, {Frags: 2, Data: "5", End: "trailers1"}, {Frags: 1, Data: "5p1", End: "rst"}, {Frags: 3, Prio: true, Data: "5+0es", End: "es"}}
	for _, a := range core {
		for _, b := range core {
			fa := a.frames(1, reqFields)
			fb := b.frames(1, resFields)
			out = append(out, scenario{Fam: "duplex", Name: "req{" + a.String() + "} || res{" + b.String() + "}", Class: classOf(a) + "|" + classOf(b), Bound: 1,
				Steps: []step{settingsStep(), {Client: fa[:1]}, {Client: fa[1:], Server: fb}}})
		}
	}
	// F2: interleavings of two (three) streams' lifecycles in one direction, the other direction answering afterwards
	l1 := shape{Frags: 1, Data: "3,4", End: "es"}.frames(1, reqFields)
	l2 := shape{Frags: 2, Data: "5", End: "trailers1"}.frames(3, reqFields)
	l3 := shape{Frags: 1, Prio: true, HdrES: true}.frames(5, reqFields)
	n := 0
	merges(l1, l2, func(seq []hw.Spec) {
		n++
		out = append(out, scenario{Fam: "interleave", Name: fmt.Sprintf("c2s merge #%d of s1/s3", n), Class: "continuation", Steps: []step{settingsStep(), {Client: append([]hw.Spec(nil), seq...)},
			{Server: append(shape{Frags: 1, Data: "5", End: "es"}.frames(1, resFields), shape{Frags: 1, HdrES: true}.frames(3, resFields)...)}}})
	})
	r1 := shape{Frags: 1, Data: "3,4", End: "trailers2"}.frames(1, resFields)
	r2 := shape{Frags: 3, Data: "5p1", End: "es"}.frames(3, resFields)
	n = 0
	merges(r1, r2, func(seq []hw.Spec) {
		n++
		out = append(out, scenario{Fam: "interleave", Name: fmt.Sprintf("s2c merge #%d of s1/s3", n), Class: "continuation", Steps: []step{settingsStep(),
			{Client: append(shape{Frags: 1, HdrES: true}.frames(1, reqFields), shape{Frags: 1, HdrES: true}.frames(3, reqFields)...)}, {Server: append([]hw.Spec(nil), seq...)}}})
	})
	if tier == "thorough" {
		n = 0
		merges(l1, l2, func(seq []hw.Spec) {
			merges(seq, l3, func(seq3 []hw.Spec) {
				n++
				out = append(out, scenario{Fam: "interleave3", Name: fmt.Sprintf("c2s merge #%d of s1/s3/s5", n), Class: "continuation", Steps: []step{settingsStep(), {Client: append([]hw.Spec(nil), seq3...)}}})
			})
		})
	}
	// F3: transport segmentation
	for _, seg := range []int{1, 2, 7} {
		for _, pseg := range []int{0, 1, 5, 23} {
			for _, sh := range []shape{{Frags: 1, Data: "5", End: "es"}, {Frags: 2, Prio: true, Data: "5p1", End: "trailers2"}} {
				out = append(out, scenario{Fam: "segment", Name: fmt.Sprintf("seg=%d prefaceSeg=%d %s", seg, pseg, sh), Seg: seg, PrefaceSeg: pseg, Class: classOf(sh),
					Steps: []step{settingsStep(), {Client: sh.frames(1, reqFields)}, {Server: sh.frames(1, resFields)}}})
			}
		}
	}
	for _, pseg := range []int{1, 5, 12, 23} {
		out = append(out, scenario{Fam: "segment", Name: fmt.Sprintf("preface in %d-byte pieces only", pseg), PrefaceSeg: pseg, Bound: 1, Class: "preface_split",
			Steps: []step{settingsStep(), {Client: shape{Frags: 1, HdrES: true}.frames(1, reqFields)}}})
	}
	// F4: receiver windows that block DATA while trailers and other streams' header blocks are pending
	for _, iw := range []uint32{0, 1, 4} {
		for _, other := range []string{"same-fields", "new-fields"} {
			f3 := reqFields
			if other == "same-fields" {
				f3 = append(append([][2]string{}, reqFields[:4]...), trailerFields...)
			}
			out = append(out, scenario{Fam: "window", Name: fmt.Sprintf("server initial window %d; s1 data+trailers blocked, then s3 headers (%s), then credit", iw, other), Class: other,
				Steps: []step{
					{Client: []hw.Spec{{T: "settings"}}, Server: []hw.Spec{{T: "settings", Settings: [][2]uint32{{4, iw}}}}},
					{Client: []hw.Spec{{T: "headers", Stream: 1, Fields: reqFields}, {T: "data", Stream: 1, Len: 5}, {T: "headers", Stream: 1, Fields: trailerFields, EndStream: true}}},
					{Client: []hw.Spec{{T: "headers", Stream: 3, Fields: f3, EndStream: true}}},
					{Server: []hw.Spec{{T: "wu", Stream: 1, Incr: 10}}},
				}})
			// mirror: client window blocks the response
			out = append(out, scenario{Fam: "window", Name: fmt.Sprintf("client initial window %d; s1 response data+trailers blocked, then s3 response headers (%s), then credit", iw, other), Class: other + ":s2c",
				Steps: []step{
					{Client: []hw.Spec{{T: "settings", Settings: [][2]uint32{{4, iw}}}}, Server: []hw.Spec{{T: "settings"}}},
					{Client: []hw.Spec{{T: "headers", Stream: 1, Fields: reqFields, EndStream: true}, {T: "headers", Stream: 3, Fields: reqFields, EndStream: true}}},
					{Server: []hw.Spec{{T: "headers", Stream: 1, Fields: resFields}, {T: "data", Stream: 1, Len: 5}, {T: "headers", Stream: 1, Fields: trailerFields, EndStream: true}}},
					{Server: []hw.Spec{{T: "headers", Stream: 3, Fields: append(append([][2]string{}, resFields[:1]...), trailerFields...), EndStream: true}}},
					{Client: []hw.Spec{{T: "wu", Stream: 1, Incr: 10}}},
				}})
		}
	}
	// F4b: other frame types queued behind window-blocked DATA must keep their per-stream order
	for _, iw := range []uint32{0, 2} {
		for vi, tail := range [][]hw.Spec{
			{{T: "rst", Stream: 1, Code: 8}},
			{{T: "priority", Stream: 1, Prio: true, Weight: 33}, {T: "data", Stream: 1, Len: 2, EndStream: true}},
			{{T: "data", Stream: 1, Len: 3}, {T: "headers", Stream: 1, Fields: trailerFields, Frags: 2, EndStream: true}},
			{{T: "data", Stream: 1, Len: 0, EndStream: true}},
		} {
			c := append([]hw.Spec{{T: "headers", Stream: 1, Fields: reqFields}, {T: "data", Stream: 1, Len: 5}}, tail...)
			out = append(out, scenario{Fam: "window", Name: fmt.Sprintf("server initial window %d; s1 data blocked then tail variant %d, s3 in between, then credit", iw, vi),
				Steps: []step{
					{Client: []hw.Spec{{T: "settings"}}, Server: []hw.Spec{{T: "settings", Settings: [][2]uint32{{4, iw}}}}},
					{Client: c},
					{Client: []hw.Spec{{T: "headers", Stream: 3, Fields: reqFields, EndStream: true}}},
					{Server: []hw.Spec{{T: "wu", Stream: 1, Incr: 3}}},
					{Server: []hw.Spec{{T: "wu", Stream: 1, Incr: 20}}},
				}})
			// mirrored: the client's window blocks the response
			sv := append([]hw.Spec{{T: "headers", Stream: 1, Fields: resFields}, {T: "data", Stream: 1, Len: 5}}, tail...)
			out = append(out, scenario{Fam: "window", Name: fmt.Sprintf("client initial window %d; s1 response data blocked then tail variant %d, then credit", iw, vi),
				Steps: []step{
					{Client: []hw.Spec{{T: "settings", Settings: [][2]uint32{{4, iw}}}}, Server: []hw.Spec{{T: "settings"}}},
					{Client: []hw.Spec{{T: "headers", Stream: 1, Fields: reqFields, EndStream: true}, {T: "headers", Stream: 3, Fields: reqFields, EndStream: true}}},
					{Server: sv},
					{Server: []hw.Spec{{T: "headers", Stream: 3, Fields: resFields, EndStream: true}}},
					{Client: []hw.Spec{{T: "wu", Stream: 1, Incr: 3}}},
					{Client: []hw.Spec{{T: "wu", Stream: 1, Incr: 20}}},
				}})
		}
	}
	// F4c: a window release larger than the relay's internal queue toward a stalled receiver, with the sender's next
	// frames of the same stream arriving while the release is still being pushed
	for _, n := range []int{14, 16, 17, 40} {
		var datas []hw.Spec
		for i := 0; i < n; i++ {
			datas = append(datas, hw.Spec{T: "data", Stream: 1, Len: 1})
		}
		for ti, tail := range [][]hw.Spec{
			{{T: "headers", Stream: 1, Fields: trailerFields, EndStream: true}},
			{{T: "rst", Stream: 1, Code: 8}},
			{{T: "data", Stream: 1, Len: 2, EndStream: true}},
		} {
			out = append(out, scenario{Fam: "burst", Name: fmt.Sprintf("stalled server: %d queued DATA released at once, then tail %d, then the server resumes", n, ti), Stall: "server", Bound: 1, NoDeepen: n > 14,
				Steps: []step{
					{Client: []hw.Spec{{T: "settings"}}, Server: []hw.Spec{{T: "settings", Settings: [][2]uint32{{4, 0}}}}},
					{Client: append([]hw.Spec{{T: "headers", Stream: 1, Fields: reqFields}}, datas...)},
					{Server: []hw.Spec{{T: "wu", Stream: 1, Incr: uint32(n + 2)}}},
					{Client: tail},
					{Resume: true},
				}})
			out = append(out, scenario{Fam: "burst", Name: fmt.Sprintf("stalled client: %d queued response DATA released at once, then tail %d, then the client resumes", n, ti), Stall: "client", Bound: 1, NoDeepen: n > 14,
				Steps: []step{
					{Client: []hw.Spec{{T: "settings", Settings: [][2]uint32{{4, 0}}}, {T: "headers", Stream: 1, Fields: reqFields, EndStream: true}}, Server: []hw.Spec{{T: "settings"}}},
					{Server: append([]hw.Spec{{T: "headers", Stream: 1, Fields: resFields}}, datas...)},
					{Client: []hw.Spec{{T: "wu", Stream: 1, Incr: uint32(n + 2)}}},
					{Server: tail},
					{Resume: true},
				}})
		}
	}
	// F5: connection-level frames, PRIORITY, PUSH_PROMISE
	for _, fr := range []int{1, 2, 3} {
		out = append(out, scenario{Fam: "misc", Name: fmt.Sprintf("push promise frags=%d then pushed response", fr), Class: map[bool]string{true: "continuation", false: ""}[fr > 1],
			Steps: []step{settingsStep(), {Client: shape{Frags: 1, HdrES: true}.frames(1, reqFields)},
				{Server: append([]hw.Spec{{T: "push", Stream: 1, Promise: 2, Fields: reqFields, Frags: fr}}, append(shape{Frags: 1, Data: "5", End: "es"}.frames(1, resFields), shape{Frags: 1, Data: "5", End: "es"}.frames(2, resFields)...)...)}}})
	}
	out = append(out, scenario{Fam: "misc", Name: "settings/ping/goaway/priority both ways", Bound: 1, Steps: []step{
		{Client: []hw.Spec{{T: "settings", Settings: [][2]uint32{{1, 4096}, {2, 0}, {3, 100}, {4, 65535}, {5, 16384}, {6, 8192}}}}, Server: []hw.Spec{{T: "settings", Settings: [][2]uint32{{3, 1}, {5, 20000}}}}},
		{Client: []hw.Spec{{T: "settings_ack"}, {T: "ping", Ping: "12345678"}, {T: "priority", Stream: 1, Prio: true, Dep: 0, Weight: 200, Excl: true}, {T: "priority", Stream: 3, Prio: true, Dep: 1, Weight: 1}},
			Server: []hw.Spec{{T: "settings_ack"}, {T: "ping", Ping: "abcdefgh"}}},
		{Client: []hw.Spec{{T: "ping", Ack: true, Ping: "abcdefgh"}, {T: "goaway", Last: 0, Code: 0, Debug: "bye"}}, Server: []hw.Spec{{T: "ping", Ack: true, Ping: "12345678"}, {T: "goaway", Last: 3, Code: 2, Debug: "server going away"}}},
	}})
	// GOAWAY (with debug data) is not the endpoint's last frame: streams up to Last go on, and connection-level frames
	// follow it; whatever the relay reads next must not change what it forwards for the GOAWAY
	for _, who := range []string{"client", "server"} {
		ga := []hw.Spec{{T: "goaway", Last: 1, Code: 0, Debug: strings.Repeat("A", 32)}, {T: "data", Stream: 1, Len: 40}, {T: "ping", Ping: "pingpong"},
			{T: "settings", Settings: [][2]uint32{{3, 7}, {6, 4000}}}, {T: "data", Stream: 1, Len: 3, EndStream: true}}
		st := step{Client: ga}
		if who == "server" {
			st = step{Server: ga}
		}
		out = append(out, scenario{Fam: "misc", Name: "goaway from the " + who + " followed by more of its frames", Bound: 1, Steps: []step{settingsStep(),
			{Client: shape{Frags: 1}.frames(1, reqFields)}, {Server: shape{Frags: 1}.frames(1, resFields)}, st}})
	}
	// header table: repeated fields across blocks (indexed references), a field larger than the table, table size change
	big := [][2]string{{":status", "200"}, {"x-big", strings.Repeat("b", 5000)}}
	out = append(out, scenario{Fam: "hpack", Name: "repeated blocks, oversized field, table size setting", Steps: []step{settingsStep(),
		{Client: append(append(shape{Frags: 1, HdrES: true}.frames(1, reqFields), shape{Frags: 1, HdrES: true}.frames(3, reqFields)...), shape{Frags: 2, HdrES: true}.frames(5, reqFields)...)},
		{Server: []hw.Spec{{T: "headers", Stream: 1, Fields: big, EndStream: true}, {T: "headers", Stream: 3, Fields: resFields, EndStream: true}, {T: "headers", Stream: 5, Fields: big, Frags: 3, EndStream: true}}},
		{Client: []hw.Spec{{T: "settings", Settings: [][2]uint32{{1, 0}}}}},
		{Server: []hw.Spec{{T: "settings_ack"}}},
		{Client: shape{Frags: 1, HdrES: true}.frames(7, reqFields)},
	}})
	// header blocks larger than one frame: the relay has to cut the re-encoded block into HEADERS + CONTINUATION
	// frames of at most the receiver's maximum frame size (default, and raised to 20000)
	huge := func(n int) [][2]string { return [][2]string{{"x-huge", strings.Repeat("~", n)}} } // "~" has a 13-bit Huffman code: the encoder sends it raw, n bytes on the wire
	for _, n := range []int{16300, 16384, 40000} {
		for _, mfs := range []uint32{0, 20000} {
			st := settingsStep()
			if mfs != 0 {
				st = step{Client: []hw.Spec{{T: "settings", Settings: [][2]uint32{{5, mfs}}}}, Server: []hw.Spec{{T: "settings", Settings: [][2]uint32{{5, mfs}}}}}
			}
			out = append(out, scenario{Fam: "hpack", Name: fmt.Sprintf("header block with a %d-byte field both ways, max frame size %d", n, mfs), Class: "huge_block", Steps: []step{st,
				{Client: []hw.Spec{{T: "headers", Stream: 1, Fields: append(append([][2]string{}, reqFields...), huge(n)...), Frags: 4, EndStream: true}}},
				{Server: []hw.Spec{{T: "headers", Stream: 1, Fields: append(append([][2]string{}, resFields...), huge(n)...), Frags: 4},
					{T: "headers", Stream: 1, Fields: append(append([][2]string{}, trailerFields...), huge(n)...), Frags: 4, EndStream: true}}},
			}})
			out = append(out, scenario{Fam: "hpack", Name: fmt.Sprintf("header block with a %d-byte field and priority, then a pushed request in one frame, max frame size %d", n, mfs), Class: "huge_block", Steps: []step{st,
				{Client: []hw.Spec{{T: "headers", Stream: 1, Fields: append(append([][2]string{}, reqFields...), huge(n)...), Frags: 4, Prio: true, Dep: 0, Weight: 3, EndStream: true}}},
				{Server: []hw.Spec{{T: "push", Stream: 1, Promise: 2, Fields: append(append([][2]string{}, reqFields...), huge(n/4)...), Frags: 1},
					{T: "headers", Stream: 1, Fields: resFields, EndStream: true}}},
			}})
		}
	}
	// a header block the relay has to cut into HEADERS + CONTINUATION is written while the other direction makes the
	// relay write to the same endpoint (WINDOW_UPDATE acknowledging uploaded DATA, a forwarded PING): nothing may
	// come between the frames of one block. Schedules explored.
	for _, n := range []int{17000} {
		out = append(out, scenario{Fam: "hpack", Name: fmt.Sprintf("response block with a %d-byte field while the client uploads DATA and the server pings", n), Class: "huge_block_duplex", Bound: 1, Steps: []step{settingsStep(),
			{Client: []hw.Spec{{T: "headers", Stream: 1, Fields: reqFields}}},
			{Client: []hw.Spec{{T: "data", Stream: 1, Len: 10}, {T: "data", Stream: 1, Len: 7, EndStream: true}},
				Server: []hw.Spec{{T: "headers", Stream: 1, Fields: append(append([][2]string{}, resFields...), huge(n)...), Frags: 4}, {T: "ping", Ping: "pingpong"}, {T: "data", Stream: 1, Len: 3, EndStream: true}}},
		}})
		out = append(out, scenario{Fam: "hpack", Name: fmt.Sprintf("request block with a %d-byte field while the server sends DATA", n), Class: "huge_block_duplex", Bound: 1, Steps: []step{settingsStep(),
			{Client: []hw.Spec{{T: "headers", Stream: 1, Fields: reqFields, EndStream: true}}},
			{Server: []hw.Spec{{T: "headers", Stream: 1, Fields: resFields}}},
			{Client: []hw.Spec{{T: "headers", Stream: 3, Fields: append(append([][2]string{}, reqFields...), huge(n)...), Frags: 4, EndStream: true}, {T: "ping", Ping: "abcdefgh"}},
				Server: []hw.Spec{{T: "data", Stream: 1, Len: 10}, {T: "data", Stream: 1, Len: 7, EndStream: true}}},
		}})
	}
	// the same with a receiver that has stopped reading: the relay's writer is stuck in the middle of the block, the
	// other direction's acknowledgement queues up behind the write lock, then the receiver resumes
	out = append(out, scenario{Fam: "hpack", Name: "stalled client: 40000-byte response block stuck half written, the client's upload is acknowledged meanwhile, then the client resumes", Class: "huge_block_duplex", Stall: "client", Bound: 1, Steps: []step{
		{Client: []hw.Spec{{T: "settings"}, {T: "headers", Stream: 1, Fields: reqFields}}, Server: []hw.Spec{{T: "settings"}}},
		{Server: []hw.Spec{{T: "headers", Stream: 1, Fields: append(append([][2]string{}, resFields...), huge(40000)...), Frags: 4}}},
		{Client: []hw.Spec{{T: "data", Stream: 1, Len: 10, EndStream: true}}, Server: []hw.Spec{{T: "ping", Ping: "pingpong"}}},
		{Resume: true},
		{Server: []hw.Spec{{T: "data", Stream: 1, Len: 3, EndStream: true}}},
	}})
	out = append(out, scenario{Fam: "hpack", Name: "stalled server: 40000-byte request block stuck half written, the server's DATA is acknowledged meanwhile, then the server resumes", Class: "huge_block_duplex", Stall: "server", Bound: 1, Steps: []step{
		{Client: []hw.Spec{{T: "settings"}, {T: "headers", Stream: 1, Fields: reqFields, EndStream: true}}, Server: []hw.Spec{{T: "settings"}}},
		{Client: []hw.Spec{{T: "headers", Stream: 3, Fields: append(append([][2]string{}, reqFields...), huge(40000)...), Frags: 4, EndStream: true}}},
		{Server: []hw.Spec{{T: "headers", Stream: 1, Fields: resFields}, {T: "data", Stream: 1, Len: 10, EndStream: true}}, Client: []hw.Spec{{T: "ping", Ping: "abcdefgh"}}},
		{Resume: true},
	}})
	// PUSH_PROMISE keeps its place among the frames of the associated stream when earlier DATA of that stream is
	// held back by the client's window
	for _, iw := range []uint32{0, 10} {
		out = append(out, scenario{Fam: "window", Name: fmt.Sprintf("client initial window %d; response DATA blocked, then PUSH_PROMISE on the same stream, more DATA, then credit", iw), Class: "push_behind_blocked_data",
			Steps: []step{
				{Client: []hw.Spec{{T: "settings", Settings: [][2]uint32{{4, iw}}}}, Server: []hw.Spec{{T: "settings"}}},
				{Client: []hw.Spec{{T: "headers", Stream: 1, Fields: reqFields, EndStream: true}}},
				{Server: []hw.Spec{{T: "headers", Stream: 1, Fields: resFields}, {T: "data", Stream: 1, Len: 10}, {T: "data", Stream: 1, Len: 10},
					{T: "push", Stream: 1, Promise: 2, Fields: reqFields, Frags: 1}, {T: "data", Stream: 1, Len: 4, EndStream: true}}},
				{Server: []hw.Spec{{T: "headers", Stream: 2, Fields: resFields, EndStream: true}}},
				{Client: []hw.Spec{{T: "wu", Stream: 1, Incr: 5}}},
				{Client: []hw.Spec{{T: "wu", Stream: 1, Incr: 100}}},
			}})
	}
	// the receiver shrinks / disables its header table before repeated blocks arrive (the relay's encoder toward it
	// must follow), in both directions
	for _, ts := range []uint32{0, 100} {
		out = append(out, scenario{Fam: "hpack", Name: fmt.Sprintf("receivers announce header table size %d, then repeated blocks both ways", ts), Class: "table_size", Steps: []step{
			{Client: []hw.Spec{{T: "settings", Settings: [][2]uint32{{1, ts}}}}, Server: []hw.Spec{{T: "settings", Settings: [][2]uint32{{1, ts}}}}},
			{Client: []hw.Spec{{T: "settings_ack"}}, Server: []hw.Spec{{T: "settings_ack"}}},
			{Client: append(append(shape{Frags: 1, HdrES: true}.frames(1, reqFields), shape{Frags: 2, HdrES: true}.frames(3, reqFields)...), shape{Frags: 1, HdrES: true}.frames(5, reqFields)...)},
			{Server: append(append(shape{Frags: 1, HdrES: true}.frames(1, resFields), shape{Frags: 1, HdrES: true}.frames(3, resFields)...), shape{Frags: 2, HdrES: true}.frames(5, resFields)...)},
		}})
	}
	// priority parameters other than the defaults, on HEADERS and on PRIORITY frames
	out = append(out, scenario{Fam: "misc", Name: "priority parameters: exclusive, dependency on another stream, weights 0 and 255", Steps: []step{settingsStep(),
		{Client: []hw.Spec{{T: "headers", Stream: 1, Fields: reqFields, Prio: true, Dep: 0, Weight: 255, Excl: true},
			{T: "headers", Stream: 3, Fields: reqFields, Prio: true, Dep: 1, Weight: 0, Frags: 2},
			{T: "priority", Stream: 3, Prio: true, Dep: 1, Weight: 7, Excl: true}, {T: "priority", Stream: 9, Prio: true, Dep: 3, Weight: 255},
			{T: "data", Stream: 1, Len: 4, EndStream: true}, {T: "rst", Stream: 3, Code: 0}}},
		{Server: []hw.Spec{{T: "headers", Stream: 1, Fields: resFields}, {T: "rst", Stream: 1, Code: 0xffffffff}}},
	}})
	// the CONNECTION window (not a stream window) blocks DATA while trailers and another stream's headers are pending
	for _, dir := range []string{"c2s", "s2c"} {
		used := []hw.Spec{}
		for i := 0; i < 4; i++ {
			n := 16383
			if i == 3 {
				n = 16383 // 4 x 16383 = 65532: three bytes of connection window are left
			}
			used = append(used, hw.Spec{T: "data", Stream: 5, Len: n})
		}
		if dir == "c2s" {
			out = append(out, scenario{Fam: "window", Name: "connection window (3 bytes left) blocks s1 data+trailers, s3 headers pass, then connection credit", Class: "conn_window",
				Steps: []step{
					{Client: []hw.Spec{{T: "settings"}}, Server: []hw.Spec{{T: "settings"}}},
					{Client: append([]hw.Spec{{T: "headers", Stream: 5, Fields: reqFields}}, used...)},
					{Client: []hw.Spec{{T: "headers", Stream: 1, Fields: reqFields}, {T: "data", Stream: 1, Len: 5}, {T: "headers", Stream: 1, Fields: trailerFields, EndStream: true}}},
					{Client: []hw.Spec{{T: "headers", Stream: 3, Fields: reqFields, EndStream: true}}},
					{Server: []hw.Spec{{T: "wu", Stream: 0, Incr: 1}}},
					{Server: []hw.Spec{{T: "wu", Stream: 0, Incr: 10}}},
				}})
		} else {
			out = append(out, scenario{Fam: "window", Name: "connection window (3 bytes left) blocks s1 response data+trailers, s3 response headers pass, then connection credit", Class: "conn_window:s2c",
				Steps: []step{
					{Client: []hw.Spec{{T: "settings"}}, Server: []hw.Spec{{T: "settings"}}},
					{Client: []hw.Spec{{T: "headers", Stream: 5, Fields: reqFields, EndStream: true}, {T: "headers", Stream: 1, Fields: reqFields, EndStream: true}, {T: "headers", Stream: 3, Fields: reqFields, EndStream: true}}},
					{Server: append([]hw.Spec{{T: "headers", Stream: 5, Fields: resFields}}, used...)},
					{Server: []hw.Spec{{T: "headers", Stream: 1, Fields: resFields}, {T: "data", Stream: 1, Len: 5}, {T: "headers", Stream: 1, Fields: trailerFields, EndStream: true}}},
					{Server: []hw.Spec{{T: "headers", Stream: 3, Fields: resFields, EndStream: true}}},
					{Client: []hw.Spec{{T: "wu", Stream: 0, Incr: 1}}},
					{Client: []hw.Spec{{T: "wu", Stream: 0, Incr: 10}}},
				}})
		}
	}
	if os.Getenv("C08_BASE") != "" {
		return out // development aid: only the scenarios that existed before the audit (to show what a mutant needs)
	}
	return append(out, extScenarios(tier, out)...)
}

type shardOut struct {
	Counters   map[string]int64
	Violations []lib.Violation
	Samples    []interface{}
	Incomplete string
}

func main() {
	tier := lib.Tier()
	scen := scenarios(tier)
	if rp := os.Getenv("VERIF_REPLAY"); rp != "" {
		var doc struct {
			First struct {
				Replay struct {
					Scenario scenario
					Schedule []int
				}
			}
		}
		b, err := os.ReadFile(rp)
		if err != nil || json.Unmarshal(b, &doc) != nil {
			fmt.Fprintln(os.Stderr, "cannot read replay", rp, err)
			os.Exit(2)
		}
		body, check := run(doc.First.Replay.Scenario)
		r := vrt.Run(vrt.Config{Trace: os.Getenv("VERIF_TRACE") != "", MaxPoints: 400000}, doc.First.Replay.Schedule, body)
		for _, l := range r.Trace {
			fmt.Println("  ", l)
		}
		fmt.Println("outcome:", r.Outcome, r.Panic)
		for _, l := range r.Log {
			fmt.Println("log:", l)
		}
		fs := check(r)
		for _, f := range fs {
			fmt.Printf("VIOLATION property=C08 replay=%s\n  %s: %s\n", rp, f.Sig, f.Desc)
		}
		if len(fs) > 0 {
			os.Exit(1)
		}
		return
	}
	if i, n := lib.ShardEnv(); n > 0 {
		out := &shardOut{Counters: map[string]int64{}}
		per := 45 * time.Second // the heaviest quick scenario takes about 1.5 s of CPU; the machine is shared
		if tier == "thorough" {
			per = 5 * time.Minute // the heaviest thorough scenario (burst, 14 queued frames, 2 deviations) takes about 80 s of CPU
		}
		for si, sc := range scen {
			if si%n != i {
				continue
			}
			if f := os.Getenv("C08_ONLY"); f != "" && !strings.Contains(sc.Name, f) {
				continue // development aid: run only the scenarios whose name contains the value
			}
			// deviation bound per family: pure input families run the default schedule in quick; families with
			// concurrency or flow-control blocking get schedule exploration in both tiers
			b := sc.Bound
			switch sc.Fam {
			case "window", "interleave", "hpack":
				if b < 1 {
					b = 1
				}
			}
			// thorough: one more deviation. (Before the audit duplex got two more and every burst scenario one more; measured
			// on an idle machine a duplex scenario at 3 deviations and a burst scenario with 16 or more queued frames at 2
			// deviations do not finish within minutes, so thorough always ended at the per-scenario cap with
			// exhaustive=false. The bounds below are the ones that complete.)
			if tier == "thorough" && !sc.NoDeepen {
				b++
			}
			if v := os.Getenv("C08_BOUND"); v != "" {
				fmt.Sscanf(v, "%d", &b)
			}
			body, check := run(sc)
			if os.Getenv("C08_TRACE") != "" {
				r := vrt.Run(vrt.Config{Trace: true, MaxPoints: 400000}, nil, body)
				// development aid: C08_TRACE=<file> writes the trace of the default schedule of each selected scenario
				tf, _ := os.OpenFile(os.Getenv("C08_TRACE"), os.O_APPEND|os.O_CREATE|os.O_WRONLY, 0o644)
				fmt.Fprintln(tf, "SCENARIO", sc.Name)
				for _, l := range r.Trace {
					fmt.Fprintln(tf, l)
				}
				fmt.Fprintln(tf, "outcome", r.Outcome, check(r))
				tf.Close()
			}
			seen := map[string]bool{}
			nontrivial := false
			st := vrt.Explore(vrt.ExploreConfig{Bound: b, Deadline: time.Now().Add(per), Config: vrt.Config{MaxPoints: 400000}}, body, func(prefix []int, r *vrt.Result) bool {
				if !nontrivial {
					n := 0
					for _, l := range r.Log {
						for _, p := range []string{"<- HEADERS", "<- DATA", "<- RST", "<- PRIORITY", "<- PUSH"} {
							if strings.Contains(l, p) {
								n++
							}
						}
					}
					nontrivial = n >= 2
				}
				for _, f := range check(r) {
					if !seen[f.Sig] {
						seen[f.Sig] = true
						if err := vrt.Confirm(vrt.Config{MaxPoints: 400000, MaxVTime: 3 * time.Hour}, r, body, 3); err != nil {
							fmt.Fprintln(os.Stderr, "ENGINE ERROR:", err)
							os.Exit(2)
						}
						out.Violations = append(out.Violations, lib.Violation{Sig: f.Sig, Desc: fmt.Sprintf("scenario {%s: %s} schedule %v: %s", sc.Fam, sc.Name, r.ChoiceSeq(), f.Desc),
							Replay: map[string]interface{}{"scenario": sc, "schedule": r.ChoiceSeq(), "log": r.Log}})
					}
				}
				return true
			})
			if st.EngineError != "" {
				fmt.Fprintln(os.Stderr, "ENGINE ERROR:", st.EngineError)
				os.Exit(2)
			}
			out.Counters["scenarios"]++
			if nontrivial {
				out.Counters["scenarios_nontrivial"]++
			}
			out.Counters["scenarios_"+sc.Fam]++
			out.Counters["executions"] += int64(st.Execs)
			out.Counters["executions_"+sc.Fam] += int64(st.Execs)
			out.Counters["points"] += st.Points
			out.Counters["distinct_outcomes"] += int64(st.DistinctLogs)
			out.Counters["horizon_hits"] += int64(st.HorizonHits)
			if st.DistinctLogs > 1 {
				out.Counters["scenarios_with_multiple_outcomes"]++
			}
			if !st.Exhaustive {
				out.Incomplete = fmt.Sprintf("scenario {%s}: cap hit, bound completed %d", sc.Name, st.BoundCompleted)
			}
			if len(out.Samples) < 1 {
				out.Samples = append(out.Samples, map[string]interface{}{"scenario": sc, "executions": st.Execs, "distinct_outcomes": st.DistinctLogs, "bound": b})
			}
		}
		b, _ := json.Marshal(out)
		os.WriteFile(os.Getenv("VERIF_SHARD_OUT"), b, 0o644)
		return
	}
	rep := lib.NewReport("C08", "model_checking")
	files, errs, outs := lib.RunShards(16, lib.Root+"/.build/c08/shards")
	for i, f := range files {
		if errs[i] != nil {
			fmt.Fprintf(os.Stderr, "shard %d failed: %v\n%s\n", i, errs[i], outs[i])
			os.Exit(2)
		}
		var so shardOut
		b, _ := os.ReadFile(f)
		if err := json.Unmarshal(b, &so); err != nil {
			fmt.Fprintf(os.Stderr, "shard %d: bad output: %v\n", i, err)
			os.Exit(2)
		}
		for k, v := range so.Counters {
			rep.Count(k, v)
		}
		for _, v := range so.Violations {
			rep.Violate(v.Sig, v.Desc, v.Replay)
		}
		for _, s := range so.Samples {
			rep.Sample(4, s)
		}
		if so.Incomplete != "" {
			rep.Incomplete = so.Incomplete
		}
	}
	rep.Coverage["states"] = rep.Counter("distinct_outcomes")
	rep.Coverage["transitions"] = rep.Counter("points")
	rep.Coverage["traces_validated_against_impl"] = rep.Counter("executions")
	rep.Coverage["exhaustive"] = rep.Incomplete == ""
	rep.Coverage["evaluations"] = rep.Counter("executions")
	rep.Coverage["distinct_nontrivial"] = rep.Counter("scenarios_nontrivial")
	rep.Coverage["rule"] = "a case is a frame script (scenario) together with every schedule of it within the deviation bound; each execution is judged by the whole oracle (evaluations = executions); a scenario is non-trivial when in at least one of its executions the endpoints received two or more stream-level frames (HEADERS, DATA, RST_STREAM, PRIORITY, PUSH_PROMISE) through the relay"
	rep.Coverage["bounds"] = fmt.Sprintf("%d frame scripts: all single-stream lifecycle shapes (header fragments 1..3 x priority x DATA shapes incl. padding 1/255 and empty END_STREAM frames x end by END_STREAM/trailers/RST/open) in both directions, duplex pairs, all interleavings of two (thorough: three) streams' lifecycles, transport segmentations 1/2/7 bytes and preface splits, receiver windows 0/1/4 blocking DATA with trailers and other streams' headers pending, PUSH_PROMISE with continuations, SETTINGS/PING/GOAWAY/PRIORITY, HPACK table scenarios; default schedule for pure input families and <=1 deviation for duplex/interleave/window/hpack/misc/burst in quick; +1 everywhere in thorough except the burst scenarios with 16 or more queued frames. Audit families: a cross-section of all of these with pass-through processor chains (8 chain shapes); header blocks cut at every offset 1..30 and with empty CONTINUATION frames, padded HEADERS/PUSH_PROMISE (pad 1/2/256), 37 fragmented blocks per connection; HEADERS with an empty fragment; the receiver's grant (WINDOW_UPDATE, SETTINGS_INITIAL_WINDOW_SIZE, two partial grants) at every position of a 5-frame script, both directions blocked at once, 8 streams released in reverse order; re-encoded block lengths k*16384-6..+1 (k=1,2) with priority / without / PUSH_PROMISE; SETTINGS_HEADER_TABLE_SIZE lowered with blocks in flight, raised to 8192/65536 with 6400 bytes of table in use, lowered again, set twice in one frame; extension frame types; preface sharing a write with the first frames; one single-byte read anywhere; SETTINGS with unknown/repeated identifiers; repeated/empty fields, informational responses, stream id 2^31-1; priority sections with all-zero parameters judged on the relay's output bytes. Round 8: header table raised to 8192/65536 and lowered to 4096/0 while blocks encoded against the raised size (with and without the leading size update) are in flight, both directions, concurrent writes and a write delivered in two pieces (10 / 3000 bytes) around the lowering; one queued DATA frame of k*max-1..k*max+1 bytes (k=1..3) and 65535 bytes re-cut after the receiver lowers its max frame size from 65536 to max=16384/20000", len(scen))
	rep.Coverage["explanation"] = "each execution runs the real h2 relay (rewritten for the scheduler, tls.Dial replaced by the vtls seam) between two frame-level endpoints with their own HPACK state"
	rep.Assumptions = []string{"endpoints are harness peers built on x/net/http2.Framer (the same framer the relay uses)", "K <= 3 streams in the interleaving families (8 in the grant family, 37 sequential ones in the cut family)", "the length of a re-encoded header block is predicted with a fresh hpack.Encoder (the relay uses the same encoder implementation)"}
	rep.Finish()
}
