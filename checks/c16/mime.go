package main

// MIME spelling family (round 7). The statement: "the request post data equals the request body as the origin
// receives it (parsed into parameters for form and multipart bodies)". The origin parses a multipart/form-data
// body with a MIME parser (RFC 2046 section 5.1.1), and one part list has many valid spellings: the older
// families only generate the one mime/multipart.Writer produces (body starts with the delimiter line, ends with
// close-delimiter CRLF, no transport padding, token boundary, `Content-Disposition: form-data; name="x"`).
//
// Enumerated: the full product of
//
//	part list x preamble x epilogue x transport padding after the delimiters x boundary / Content-Type spelling
//	x spelling of the part headers x framing (Content-Length, chunked) x capture option {all, none}
//
// over the pools below (bodies that coincide are emitted once). Every body is valid MIME by the grammar
//
//	multipart-body := [preamble CRLF] dash-boundary transport-padding CRLF body-part *encapsulation
//	                  close-delimiter transport-padding [CRLF epilogue]
//
// The request is parsed from wire bytes, logged by the real har.Logger, the entry exported.
//
// Oracle: the generator's own part list, in order (name, file name, content type, value), whatever the
// spelling: params must equal it and text must be empty or the raw body. That this list is "the body as the
// origin receives it, parsed into parameters" is not assumed but verified for every case: the bytes left in
// req.Body after the logger ran are read (they must be the generated body), handed to an origin
// (http.Request.ParseMultipartForm, standard library), and the origin's values and files must be exactly the
// projection of the ground-truth list - a spelling the origin would read differently aborts the run (exit 2)
// instead of being judged. So "params == ground truth" is "params == what the origin's ParseMultipartForm
// yields", plus the order and the content type of value parts, which the origin's maps do not keep.
//
// Signatures: har:mime:request:multipart(<spelling>):<symptom>. <spelling> names the deviations from the
// Writer spelling that are responsible: a failing case is re-run with each of its non-default dimensions reset
// to the default; a dimension is responsible when the symptom disappears without it (all of them when none is
// individually responsible). So one defect of preamble handling yields one signature, whatever else varies.
// (Precisely: the first smallest subset of the deviations that alone still shows the symptom, see spellingTag.)

import (
	"bytes"
	"encoding/json"
	"fmt"
	"io"
	"mime/quotedprintable"
	"net/http"
	"net/http/httptest"
	"os"
	"sort"
	"strings"
	"sync"
	"sync/atomic"

	"github.com/google/martian/v3"
	"github.com/google/martian/v3/har"

	"verif/checks/msggen"
	"verif/lib"
)

// mimeID identifies one case: indices into the pools (0 = the spelling mime/multipart.Writer produces).
type mimeID struct {
	Parts    int    `json:"parts"`
	Preamble int    `json:"preamble"`
	Epilogue int    `json:"epilogue"`
	Padding  int    `json:"padding"`
	Boundary int    `json:"boundary"`
	Style    int    `json:"part_headers"`
	Framing  string `json:"framing"` // "cl" | "chunked:first1" | "chunked:fixed7"
	Desc     string `json:"desc,omitempty"`
}

type named struct{ Name, Class, Text string }

type mimeBoundary struct {
	Name, Class string
	Boundary    string
	ContentType string
}

var (
	// preamble: the bytes in front of the first dash-boundary ([preamble CRLF])
	mimePreambles = []named{
		{"none", "", ""},
		{"crlf", "preamble", "\r\n"},
		{"text-line", "preamble", "This is a multi-part message in MIME format.\r\n"},
		{"three-lines", "preamble", "line one\r\n\r\nline three\r\n"},
		{"line-with-leading-dashes", "preamble", "--this-is-not-the-delimiter\r\n-- \r\n"},
		{"5000-bytes-of-short-lines", "preamble", strings.Repeat("forty-eight bytes of preamble text on each line.\r\n", 100)},
	}
	// epilogue: the bytes after close-delimiter and its padding ([CRLF epilogue])
	mimeEpilogues = []named{
		{"crlf", "", "\r\n"},
		{"absent", "epilogue=absent_without_crlf", ""},
		{"text", "epilogue", "\r\nepilogue text"},
		{"lines", "epilogue", "\r\nepilogue\r\n\r\nmore lines\r\n"},
		{"looks-like-another-part", "epilogue", "\r\n--%B\r\nContent-Disposition: form-data; name=\"ghost\"\r\n\r\nboo\r\n--%B--\r\n"},
	}
	// transport padding (linear white space between a delimiter and its CRLF): {inner delimiters, close delimiter}
	mimePaddings = []struct {
		Name, Class  string
		Inner, Close string
	}{
		{"none", "", "", ""},
		{"space-after-inner-delimiters", "delimiter_padding", " ", ""},
		{"space-after-close-delimiter", "delimiter_padding", "", " "},
		{"space-tab-after-all", "delimiter_padding", " \t", "\t "},
	}
	mimeBoundaries = []mimeBoundary{
		{"token", "", msggen.Boundary, "multipart/form-data; boundary=" + msggen.Boundary},
		{"quoted", "boundary=quoted", msggen.Boundary, "multipart/form-data; boundary=\"" + msggen.Boundary + "\""},
		{"leading-dashes", "boundary=leading_dashes", "------------------------d74496d66958873e", "multipart/form-data; boundary=------------------------d74496d66958873e"},
		{"special-chars", "boundary=special_chars", "a'()+_,-./:=?b", "multipart/form-data; boundary=\"a'()+_,-./:=?b\""},
		{"with-space", "boundary=with_space", "two words", "multipart/form-data; boundary=\"two words\""},
		{"70-chars", "boundary=70_chars", strings.Repeat("0123456789", 7), "multipart/form-data; boundary=" + strings.Repeat("0123456789", 7)},
		{"1-char", "boundary=1_char", "x", "multipart/form-data; boundary=x"},
		{"attribute-case-second-parameter", "content_type_spelling", msggen.Boundary, "multipart/form-data; charset=UTF-8; Boundary=" + msggen.Boundary},
		{"media-type-case-no-space", "content_type_spelling", msggen.Boundary, "Multipart/Form-Data;boundary=" + msggen.Boundary},
	}
	mimeStyles = []struct{ Name, Class string }{
		{"writer", ""},
		{"lower-case-names", "part_headers=lower_case_names"},
		{"unquoted-params", "part_headers=unquoted_params"},
		{"extra-headers", "part_headers=extra_headers"},
		{"filename-first-no-space", "part_headers=filename_first"},
		{"folded", "part_headers=folded"},
		{"quoted-printable", "part_headers=quoted_printable"},
		{"empty-part-without-body", "part_headers=empty_part_without_body"},
	}
	mimeDimNames = []string{"preamble", "epilogue", "padding", "boundary", "part_headers"}
)

// mimePartLists: the ground truth lists. %B in a value stands for the case's boundary.
var mimePartLists = []struct {
	Name  string
	Parts []msggen.Part
}{
	{"field", []msggen.Part{{Name: "a", Value: "1"}}},
	{"field+text-file", []msggen.Part{{Name: "note", Value: "hello world"}, {Name: "f", Filename: "a.txt", ContentType: "text/plain", Value: "line1\r\nline2"}}},
	{"empty-field+typed-field", []msggen.Part{{Name: "empty", Value: ""}, {Name: "typed", ContentType: "application/json", Value: "{}"}}},
	{"binary-file+field", []msggen.Part{{Name: "blob", Filename: "b.bin", ContentType: "application/octet-stream", Value: "\xff\xfe\x00\x80binary\xc3"}, {Name: "k", Value: "v"}}},
	{"repeated-name", []msggen.Part{{Name: "x", Value: "1"}, {Name: "x", Value: "2"}, {Name: "y", Value: "3"}, {Name: "x", Filename: "x.txt", ContentType: "text/plain", Value: "4"}}},
	// values with line breaks of every kind, a value ending with CRLF, lines that begin like a delimiter
	{"delimiter-lookalikes", []msggen.Part{{Name: "v", Value: "--\r\n--%b\r\n-- %B"}, {Name: "w", Value: "ends with CRLF\r\n"}, {Name: "lf", Value: "a\nb\rc\n"}}},
	{"5000-byte-field", []msggen.Part{{Name: "big", Value: string(bytes.ReplaceAll(msggenFill(5000), []byte("\n"), []byte(" ")))}, {Name: "after", Value: "x"}}},
	{"empty-file+field", []msggen.Part{{Name: "f", Filename: "empty.txt", ContentType: "text/plain", Value: ""}, {Name: "z", Value: "last"}}},
}

func msggenFill(n int) []byte {
	b := make([]byte, n)
	x := uint32(12345)
	const alphabet = "abcdefghijklmnopqrstuvwxyz ABCDEFGHIJKLMNOPQRSTUVWXYZ0123456789-="
	for i := range b {
		x = x*1664525 + 1013904223
		b[i] = alphabet[(x>>24)&63]
	}
	return b
}

// resolveParts substitutes the boundary into the lookalike values: %b = the boundary without its last byte,
// %B = the whole boundary (only ever used where it is not at the beginning of a line).
func resolveParts(ps []msggen.Part, boundary string) []msggen.Part {
	out := make([]msggen.Part, len(ps))
	for i, p := range ps {
		p.Value = strings.ReplaceAll(p.Value, "%b", boundary[:len(boundary)-1])
		p.Value = strings.ReplaceAll(p.Value, "%B", boundary)
		out[i] = p
	}
	return out
}

func qp(v string) string {
	var b bytes.Buffer
	w := quotedprintable.NewWriter(&b)
	w.Binary = true
	w.Write([]byte(v))
	w.Close()
	return b.String()
}

// partHeaders renders the header block of one part (without the blank line) in the given style.
func partHeaders(p msggen.Part, style int) string {
	cd := fmt.Sprintf("form-data; name=%q", p.Name)
	if p.Filename != "" {
		cd += fmt.Sprintf("; filename=%q", p.Filename)
	}
	ct := ""
	if p.ContentType != "" {
		ct = "Content-Type: " + p.ContentType + "\r\n"
	}
	switch mimeStyles[style].Name {
	case "lower-case-names":
		return "content-disposition: " + cd + "\r\n" + strings.Replace(ct, "Content-Type", "content-type", 1)
	case "unquoted-params":
		cd = "form-data; name=" + p.Name
		if p.Filename != "" {
			cd += "; filename=" + p.Filename
		}
	case "extra-headers":
		return "X-Part-Id: 7\r\n" + ct + "Content-Disposition: " + cd + "\r\nContent-Transfer-Encoding: binary\r\nX-Note: a: b; name=\"decoy\"\r\n"
	case "filename-first-no-space":
		cd = "form-data"
		if p.Filename != "" {
			cd += fmt.Sprintf(";filename=%q", p.Filename)
		}
		cd += fmt.Sprintf(";name=%q", p.Name)
	case "folded":
		cd = strings.Replace(cd, "; ", ";\r\n ", -1)
	case "quoted-printable":
		return "Content-Disposition: " + cd + "\r\n" + ct + "Content-Transfer-Encoding: quoted-printable\r\n"
	}
	return "Content-Disposition: " + cd + "\r\n" + ct
}

// mimeBody renders the multipart body of a case and returns it with its ground truth.
func mimeBody(id mimeID) (body []byte, parts []msggen.Part, bnd mimeBoundary) {
	bnd = mimeBoundaries[id.Boundary]
	B := bnd.Boundary
	parts = resolveParts(mimePartLists[id.Parts].Parts, B)
	pad := mimePaddings[id.Padding]
	var b bytes.Buffer
	b.WriteString(mimePreambles[id.Preamble].Text)
	for i, p := range parts {
		if i > 0 {
			b.WriteString("\r\n") // the CRLF that belongs to the delimiter
		}
		b.WriteString("--" + B + pad.Inner + "\r\n")
		b.WriteString(partHeaders(p, id.Style))
		v := p.Value
		if mimeStyles[id.Style].Name == "quoted-printable" {
			v = qp(v)
		}
		if v == "" && mimeStyles[id.Style].Name == "empty-part-without-body" {
			// body-part := MIME-part-headers [CRLF *OCTET]: no body at all, the delimiter follows the header lines
			continue
		}
		b.WriteString("\r\n")
		b.WriteString(v)
	}
	b.WriteString("\r\n--" + B + "--" + pad.Close)
	b.WriteString(strings.ReplaceAll(mimeEpilogues[id.Epilogue].Text, "%B", B))
	body = b.Bytes()

	// generator invariants: the delimiter never appears inside a part or the preamble
	inner := body[len(mimePreambles[id.Preamble].Text):]
	if i := bytes.Index(inner, []byte("\r\n--"+B+"--")); i >= 0 {
		inner = inner[:i]
	}
	if n := bytes.Count(append([]byte("\r\n"), inner...), []byte("\r\n--"+B)); n != len(parts) {
		panic(fmt.Sprintf("generator: %d delimiter lines for %d parts in %+v", n, len(parts), id))
	}
	for _, line := range strings.Split(mimePreambles[id.Preamble].Text, "\r\n") {
		if strings.HasPrefix(line, "--"+B) {
			panic("generator: preamble line begins with the delimiter")
		}
	}
	return
}

func mimeMsg(id mimeID) *msggen.Msg {
	body, parts, bnd := mimeBody(id)
	m := &msggen.Msg{
		Spec:   msggen.Spec{Space: "mime", Kind: "request", Method: "POST", Version: "1.1", Size: len(body), Framing: "cl", Enc: "none", CT: "multipart:" + mimePartLists[id.Parts].Name, Query: 1},
		Method: "POST", Target: "http://example.com/p/a?a=1", Proto: "HTTP/1.1", Host: "example.com",
		ContentType: bnd.ContentType, Payload: body, Encoded: body, Decodable: true, BodyAllowed: true, NonTrivial: true,
		Query: []msggen.KV{{Name: "a", Value: "1"}}, Parts: parts, ForMethod: "GET",
	}
	m.Headers = []msggen.KV{{Name: "Host", Value: m.Host}, {Name: "User-Agent", Value: "msggen/1"}, {Name: "Content-Type", Value: bnd.ContentType}}
	var w bytes.Buffer
	var framed bytes.Buffer
	switch id.Framing {
	case "cl":
		m.Headers = append(m.Headers, msggen.KV{Name: "Content-Length", Value: fmt.Sprint(len(body))})
		framed.Write(body)
	case "chunked:first1", "chunked:fixed7":
		m.Spec.Framing, m.Spec.Chunking = "chunked", strings.TrimPrefix(id.Framing, "chunked:")
		m.Headers = append(m.Headers, msggen.KV{Name: "Transfer-Encoding", Value: "chunked"})
		rest := body
		step := 7
		if id.Framing == "chunked:first1" {
			step = 1
		}
		for len(rest) > 0 {
			n := step
			if n > len(rest) {
				n = len(rest)
			}
			fmt.Fprintf(&framed, "%x\r\n%s\r\n", n, rest[:n])
			m.Chunks = append(m.Chunks, n)
			rest = rest[n:]
			if id.Framing == "chunked:first1" {
				step = len(rest)
			}
		}
		framed.WriteString("0\r\n\r\n")
	default:
		panic("unknown framing " + id.Framing)
	}
	fmt.Fprintf(&w, "%s %s %s\r\n", m.Method, m.Target, m.Proto)
	for _, kv := range m.Headers {
		w.WriteString(kv.Name + ": " + kv.Value + "\r\n")
	}
	w.WriteString("\r\n")
	w.Write(framed.Bytes())
	m.Wire = w.Bytes()
	return m
}

// originView is what an origin server gets out of the body with the standard library: values and files per
// name, each in body order.
type originFile struct{ Filename, ContentType, Content string }
type originView struct {
	Values map[string][]string
	Files  map[string][]originFile
}

func originParse(contentType string, body []byte) (originView, error) {
	v := originView{map[string][]string{}, map[string][]originFile{}}
	oreq, err := http.NewRequest("POST", "http://example.com/p/a", bytes.NewReader(body))
	if err != nil {
		return v, err
	}
	oreq.Header.Set("Content-Type", contentType)
	if err := oreq.ParseMultipartForm(32 << 20); err != nil {
		return v, err
	}
	defer oreq.MultipartForm.RemoveAll()
	for n, vs := range oreq.MultipartForm.Value {
		v.Values[n] = append([]string(nil), vs...)
	}
	for n, fhs := range oreq.MultipartForm.File {
		for _, fh := range fhs {
			f, err := fh.Open()
			if err != nil {
				return v, err
			}
			b, err := io.ReadAll(f)
			f.Close()
			if err != nil {
				return v, err
			}
			v.Files[n] = append(v.Files[n], originFile{fh.Filename, fh.Header.Get("Content-Type"), string(b)})
		}
	}
	return v, nil
}

// projection of a part list onto what an origin's form keeps (a part with a file name is a file, any other a value)
func viewOf(parts []msggen.Part) originView {
	v := originView{map[string][]string{}, map[string][]originFile{}}
	for _, p := range parts {
		if p.Filename != "" {
			v.Files[p.Name] = append(v.Files[p.Name], originFile{p.Filename, p.ContentType, p.Value})
		} else {
			v.Values[p.Name] = append(v.Values[p.Name], p.Value)
		}
	}
	return v
}

func sameView(a, b originView) bool {
	return fmt.Sprintf("%q", sortedView(a)) == fmt.Sprintf("%q", sortedView(b))
}

func sortedView(v originView) []string {
	var out []string
	for n, vs := range v.Values {
		out = append(out, fmt.Sprintf("value %q=%q", n, vs))
	}
	for n, fs := range v.Files {
		out = append(out, fmt.Sprintf("file %q=%q", n, fs))
	}
	sort.Strings(out)
	return out
}

type mimeFinding struct{ symptom, desc string }

type mimeStats struct {
	transitions, jsonBytes, originAgrees int64
}

// runMimeCase executes one case on the real logger and returns the symptoms.
func runMimeCase(id mimeID, opt option, st *mimeStats) (fs []mimeFinding) {
	add := func(sym, desc string) { fs = append(fs, mimeFinding{sym, desc}) }
	defer func() {
		if r := recover(); r != nil {
			if s, ok := r.(string); ok && strings.HasPrefix(s, "generator") {
				panic(r)
			}
			add("panic", fmt.Sprintf("panic: %v", r))
		}
	}()
	m := mimeMsg(id)
	raw := string(m.Encoded)
	capture := opt.capture(m)
	req, err := m.ParseRequest()
	if err != nil {
		panic(fmt.Sprintf("generator produced an unparseable request: %v", err))
	}
	_, remove, err := martian.TestContext(req, nil, nil)
	if err != nil {
		panic("generator: " + err.Error())
	}
	defer remove()
	l := har.NewLogger()
	opt.apply(l)
	lerr := l.ModifyRequest(req)
	atomic.AddInt64(&st.transitions, 1)
	if lerr != nil {
		add("logger_error", fmt.Sprintf("the logger returned %q; the exchange is not logged", lerr))
		return
	}

	// the body as the origin receives it, and what the origin makes of it
	fwd, rerr := io.ReadAll(req.Body)
	if rerr != nil || string(fwd) != raw {
		add("forwarded_body_changed", fmt.Sprintf("after the logger ran the request body reads as %d bytes %s (error %v), the client sent %d bytes %s", len(fwd), clip(string(fwd)), rerr, len(raw), clip(raw)))
		return
	}
	ov, oerr := originParse(req.Header.Get("Content-Type"), fwd)
	if oerr != nil || !sameView(ov, viewOf(m.Parts)) {
		panic(fmt.Sprintf("generator: the origin reads the body of %+v differently from the ground truth (error %v): origin %q, ground truth %q", id, oerr, sortedView(ov), sortedView(viewOf(m.Parts))))
	}
	atomic.AddInt64(&st.originAgrees, 1)

	h := l.Export()
	atomic.AddInt64(&st.transitions, 1)
	if len(h.Log.Entries) != 1 || h.Log.Entries[0].Request == nil {
		add("entry_missing", fmt.Sprintf("%d entries after one request", len(h.Log.Entries)))
		return
	}
	e := h.Log.Entries[0]
	r := e.Request
	for _, f := range checkCommonHeaders("request", m, r.Headers) {
		add(strings.TrimPrefix(f.sig, "har:request:"), f.desc)
	}
	if r.Method != m.Method || r.URL != m.Target || r.HTTPVersion != m.Proto {
		add("request_line_mismatch", fmt.Sprintf("%s %s %s, message %s %s %s", r.Method, r.URL, r.HTTPVersion, m.Method, m.Target, m.Proto))
	}
	pd := r.PostData
	if pd == nil {
		add("postdata_missing", "the request has a body but the entry has no postData")
		return
	}
	if !mimeOK(pd.MimeType, m.ContentType) {
		add("postdata_mimetype_mismatch", fmt.Sprintf("mimeType %q, Content-Type %q", pd.MimeType, m.ContentType))
	}
	describe := func() string {
		var ps []string
		for i, p := range pd.Params {
			if i == 4 {
				ps = append(ps, "...")
				break
			}
			ps = append(ps, fmt.Sprintf("{%s %s %s %s}", clip(p.Name), clip(p.Value), p.Filename, p.ContentType))
		}
		return fmt.Sprintf("text %s params %v", clip(pd.Text), ps)
	}
	truth := func() string {
		var ps []string
		for _, p := range m.Parts {
			ps = append(ps, fmt.Sprintf("{%s %s %s %s}", clip(p.Name), clip(p.Value), p.Filename, p.ContentType))
		}
		return fmt.Sprintf("%d parts %v", len(m.Parts), ps)
	}
	if !capture {
		if pd.Text != "" || len(pd.Params) > 0 {
			add("postdata_captured_though_disabled", fmt.Sprintf("Content-Type %q must not be captured, got %s", m.ContentType, describe()))
		}
	} else {
		same := len(pd.Params) == len(m.Parts)
		for i := 0; same && i < len(m.Parts); i++ {
			p, w := pd.Params[i], m.Parts[i]
			same = p.Name == w.Name && p.Value == w.Value && p.Filename == w.Filename && p.ContentType == w.ContentType
		}
		switch {
		case len(pd.Params) == 0:
			add("not_parsed_into_params", fmt.Sprintf("postData %s; the origin's ParseMultipartForm reads %s out of the same bytes %s", describe(), truth(), clip(raw)))
		case !same:
			add("postdata_params_mismatch", fmt.Sprintf("postData %s; the origin's ParseMultipartForm reads %s out of the same bytes %s", describe(), truth(), clip(raw)))
		case pd.Text != "" && pd.Text != raw:
			add("postdata_text_mismatch", fmt.Sprintf("postData text %s is neither empty nor the body %s", clip(pd.Text), clip(raw)))
		}
	}

	// JSON as produced by the export handler
	rw := httptest.NewRecorder()
	har.NewExportHandler(l).ServeHTTP(rw, httptest.NewRequest("GET", "/logs", nil))
	atomic.AddInt64(&st.transitions, 1)
	atomic.AddInt64(&st.jsonBytes, int64(rw.Body.Len()))
	var back har.HAR
	if rw.Code != 200 || !json.Valid(rw.Body.Bytes()) {
		add("json_roundtrip:invalid_json", fmt.Sprintf("export handler answered %d with %d bytes %s", rw.Code, rw.Body.Len(), clip(rw.Body.String())))
		return
	}
	if err := json.Unmarshal(rw.Body.Bytes(), &back); err != nil || back.Log == nil || len(back.Log.Entries) != 1 {
		add("json_roundtrip:unmarshal_error", fmt.Sprintf("cannot parse the exported JSON back into one entry: %v", err))
		return
	}
	for _, f := range roundTrip(m, "request", e, back.Log.Entries[0]) {
		add(strings.TrimPrefix(f.sig, "har:"), f.desc)
	}
	return
}

func (id mimeID) dims() []int {
	return []int{id.Preamble, id.Epilogue, id.Padding, id.Boundary, id.Style}
}

func (id mimeID) withDim(d, v int) mimeID {
	switch d {
	case 0:
		id.Preamble = v
	case 1:
		id.Epilogue = v
	case 2:
		id.Padding = v
	case 3:
		id.Boundary = v
	case 4:
		id.Style = v
	}
	return id
}

func (id mimeID) dimClass(d int) string {
	switch d {
	case 0:
		return mimePreambles[id.Preamble].Class
	case 1:
		return mimeEpilogues[id.Epilogue].Class
	case 2:
		return mimePaddings[id.Padding].Class
	case 3:
		return mimeBoundaries[id.Boundary].Class
	}
	return mimeStyles[id.Style].Class
}

func (id mimeID) describe() string {
	return fmt.Sprintf("parts=%s preamble=%s epilogue=%s padding=%s boundary=%s part-headers=%s framing=%s",
		mimePartLists[id.Parts].Name, mimePreambles[id.Preamble].Name, mimeEpilogues[id.Epilogue].Name, mimePaddings[id.Padding].Name,
		mimeBoundaries[id.Boundary].Name, mimeStyles[id.Style].Name, id.Framing)
}

// spellingTag names the deviations from the Writer spelling that are responsible for a symptom of a failing case:
// the first smallest subset of the case's non-default dimensions that, with every other dimension reset to the
// Writer spelling, still shows the symptom (subsets by size, then in dimension order; the empty subset means the
// symptom has nothing to do with the spelling).
func spellingTag(id mimeID, opt option, symptom string, st *mimeStats) string {
	var nonDefault []int
	for d, v := range id.dims() {
		if v != 0 {
			nonDefault = append(nonDefault, d)
		}
	}
	shows := func(keep []int) bool {
		probe := id
		for d := range id.dims() {
			probe = probe.withDim(d, 0)
		}
		for _, d := range keep {
			probe = probe.withDim(d, id.dims()[d])
		}
		for _, f := range runMimeCase(probe, opt, st) {
			if f.symptom == symptom {
				return true
			}
		}
		return false
	}
	n := len(nonDefault)
	for k := 0; k < n; k++ {
		for mask := 0; mask < 1<<uint(n); mask++ {
			var keep []int
			for b := 0; b < n; b++ {
				if mask&(1<<uint(n-1-b)) != 0 {
					keep = append(keep, nonDefault[b])
				}
			}
			if len(keep) != k {
				continue
			}
			if shows(keep) {
				return tagOf(id, keep)
			}
		}
	}
	return tagOf(id, nonDefault)
}

func tagOf(id mimeID, ds []int) string {
	if len(ds) == 0 {
		return "writer_spelling"
	}
	sort.Ints(ds)
	var names []string
	for _, d := range ds {
		names = append(names, id.dimClass(d))
	}
	return strings.Join(names, "+")
}

func runMimeFamily(rep *lib.Report, tier string, only *replayCase) map[string]int64 {
	type mcase struct {
		id  mimeID
		opt option
	}
	var cases []mcase
	mimeOptions := []option{options[0], options[1]} // all, none
	framings := []string{"cl", "chunked:first1"}
	if tier == "thorough" {
		framings = append(framings, "chunked:fixed7")
	}
	// quick: every body with at most two deviating dimensions (all values, all pairs); thorough: the full product
	maxDeviations := 2
	if tier == "thorough" {
		maxDeviations = len(mimeDimNames)
	}
	var coincide int64
	if only != nil {
		for _, o := range options {
			if o.Name == only.Option {
				cases = append(cases, mcase{*only.Mime, o})
			}
		}
	} else {
		seen := map[string]bool{}
		// simplest first: the Writer spelling, then one deviation, then two ... (sorted by the number of
		// non-default dimensions, ties in product order)
		weight := func(id mimeID) int {
			n := 0
			for _, v := range id.dims() {
				if v != 0 {
					n++
				}
			}
			return n
		}
		var ids []mimeID
		lib.Product([]int{len(mimePartLists), len(mimePreambles), len(mimeEpilogues), len(mimePaddings), len(mimeBoundaries), len(mimeStyles)}, func(x []int) {
			id := mimeID{Parts: x[0], Preamble: x[1], Epilogue: x[2], Padding: x[3], Boundary: x[4], Style: x[5], Framing: "cl"}
			if weight(id) > maxDeviations {
				return
			}
			body, _, bnd := mimeBody(id)
			key := bnd.ContentType + "\x00" + string(body)
			if seen[key] {
				coincide++
				return
			}
			seen[key] = true
			ids = append(ids, id)
		})
		sort.SliceStable(ids, func(i, j int) bool { return weight(ids[i]) < weight(ids[j]) })
		for _, id := range ids {
			for _, fr := range framings {
				id.Framing = fr
				for _, o := range mimeOptions {
					cases = append(cases, mcase{id, o})
				}
			}
		}
	}

	var st mimeStats
	var nontrivial, violCases int64
	type pv struct {
		sig, desc string
		rc        replayCase
	}
	pending := make([][]pv, len(cases))
	var mu sync.Mutex
	symptoms := map[string]int64{}
	fatal := ""
	lib.Parallel(len(cases), func(i int) {
		c := cases[i]
		defer func() {
			if r := recover(); r != nil { // only generator invariants get here
				mu.Lock()
				if fatal == "" {
					fatal = fmt.Sprint(r)
				}
				mu.Unlock()
			}
		}()
		deviates := false
		for _, v := range c.id.dims() {
			deviates = deviates || v != 0
		}
		if deviates && c.opt.Name == "all" {
			atomic.AddInt64(&nontrivial, 1)
		}
		if i%997 == 0 {
			m := mimeMsg(c.id)
			rep.Sample(12, map[string]interface{}{"mime_case": c.id.describe(), "content_type": m.ContentType, "body_bytes": len(m.Encoded), "parts": len(m.Parts)})
		}
		fs := runMimeCase(c.id, c.opt, &st)
		if len(fs) == 0 {
			return
		}
		atomic.AddInt64(&violCases, 1)
		id := c.id
		id.Desc = id.describe()
		for _, f := range fs {
			tag := spellingTag(c.id, c.opt, f.symptom, &st)
			mu.Lock()
			symptoms[f.symptom]++
			mu.Unlock()
			pending[i] = append(pending[i], pv{fmt.Sprintf("har:mime:request:multipart(%s):%s", tag, f.symptom),
				fmt.Sprintf("multipart/form-data request [%s], Content-Type %q, option %s: %s", c.id.describe(), mimeBoundaries[c.id.Boundary].ContentType, c.opt.Name, f.desc),
				replayCase{Option: c.opt.Name, Mime: &id}})
		}
	})
	if fatal != "" {
		fmt.Fprintln(os.Stderr, "C16 mime family: harness invariant broken:", fatal)
		os.Exit(2)
	}
	for _, ps := range pending {
		for _, v := range ps {
			rep.Violate(v.sig, v.desc, v.rc)
		}
	}
	out := map[string]int64{
		"mime_cases":                                         int64(len(cases)),
		"mime_bodies_coinciding_emitted_once":                coincide,
		"mime_cases_deviating_from_writer_spelling_captured": nontrivial,
		"mime_cases_origin_parse_equals_ground_truth":        st.originAgrees,
		"mime_transitions":                                   st.transitions,
		"mime_json_bytes":                                    st.jsonBytes,
		"mime_violating_cases":                               violCases,
		"mime_part_lists":                                    int64(len(mimePartLists)),
		"mime_preambles":                                     int64(len(mimePreambles)),
		"mime_epilogues":                                     int64(len(mimeEpilogues)),
		"mime_paddings":                                      int64(len(mimePaddings)),
		"mime_boundary_spellings":                            int64(len(mimeBoundaries)),
		"mime_part_header_styles":                            int64(len(mimeStyles)),
		"mime_framings":                                      int64(len(framings)),
		"mime_max_deviating_dimensions_per_case":             int64(maxDeviations),
	}
	for s, n := range symptoms {
		out["mime_symptom_"+s] = n
	}
	return out
}
