package main

// URL and cookie spelling family (round 8). The statement: "the HAR entry's method, URL, ... query parameters,
// cookies ... equal those of the message". The older families build every request with one URL shape
// (http://example.com/p/a + one of 7 query strings: plain path, host name without port, always absolute-form)
// and every cookie list with pairwise distinct names. Two dimensions of "for all requests and responses" were
// therefore held at one value: the SPELLING of the URL (one resource has many RFC 3986 spellings, and
// percent-encoded reserved characters are significant: /a%2Fb is not /a/b) and the MULTIPLICITY of cookie names
// (a cookie is identified by name + domain + path, so one message may carry one name several times).
//
// URL sub-family: the full product of
//
//	request-target form {absolute-form, origin-form on a plain connection, origin-form inside a MITM'd tunnel}
//	x authority (host name, with port, mixed case, IPv4, IPv6 literal with and without port; absolute-form
//	  also with userinfo: user, user:password, empty password, escaped reserved characters, userinfo + IPv6)
//	x path (empty, "/", plain, escaped reserved characters %2F %3F %23 %25, lower-case hex digits and escaped
//	  unreserved characters, escaped space / UTF-8 / non-UTF-8 octets, literal sub-delims and ":" "@" ";" ",",
//	  empty and dot segments, leading "//", trailing "/")
//	x query (absent, a bare "?", plain, empty values and flags, escaped "=" "&" "/" "?" "#" "%", "+" and %20,
//	  literal "?" and "/", empty pairs, a lone "=", a trailing "&")
//
// of RFC 3986-valid spellings (invalid combinations - origin-form with userinfo or with an empty path - are
// not in the space). The request is parsed from wire bytes with http.ReadRequest; for origin-form targets the
// harness then does what martian's proxy does before it runs the modifiers (proxy.go: URL.Scheme = http, or
// https inside a secure session; URL.Host = the Host header when the target names none), logged by a fresh
// har.Logger, exported, and the export handler's JSON is parsed back.
//
// Oracle (from the statement, no URL parser involved): the URL of the message is the request-target as written
// on the wire (absolute-form), or scheme "://" Host-header-value request-target (origin-form); the logged URL
// must be that string byte for byte. Query parameters: the hand-written decoded pair list of the query pool
// entry, compared per name in order. Header list, method, version and the JSON round trip are judged with the
// functions of the older families.
//
// Cookie sub-families: requests - every sequence of up to N cookie pairs over an alphabet in which names repeat
// (sid=root, sid=app, theme=dark, SID=upper: same name with two values, an exact repetition when a letter is
// used twice, a name that differs in case only) x every way to split the sequence into consecutive Cookie
// header lines. Responses - every sequence of up to N Set-Cookie lines over an alphabet of six cookies, five of
// them named sid and differing in value / Path / Domain / flags / Expires. Oracle: the generator's cookie list,
// one entry per pair / per Set-Cookie line, in message order, every attribute.
//
// Signatures: har:spelling:request:url(<dims>):<symptom> where <dims> names the deviations from the default
// spelling (absolute-form, example.com, /p/a, no query) that are responsible: the first smallest subset of the
// case's deviating dimensions that, with the others reset to the default, still shows the symptom (only failing
// cases are re-run). har:spelling:<kind>:cookies(<class>):<symptom> with class none / distinct_names /
// repeated_cookie (only exact copies repeat) / repeated_name (one name with different values or attributes),
// computed from the sequence. <symptom> is the part of the older families' signature after
// "har:request:" / "har:response:" / "har:" (url_mismatch, query_mismatch, cookies_mismatch,
// json_roundtrip:request:request_cookies ...).

import (
	"encoding/json"
	"fmt"
	"net/http"
	"net/http/httptest"
	"os"
	"sort"
	"strings"
	"sync"
	"sync/atomic"

	"github.com/google/martian/v3"
	"github.com/google/martian/v3/har"

	"verif/checks/msggen"
	"verif/lib"
)

// spellID identifies one case of the family.
type spellID struct {
	Sub string `json:"sub"` // "url" | "reqcookies" | "rescookies"
	// url: indices into the pools (0 = the spelling of the older families)
	Form  int `json:"form,omitempty"`
	Auth  int `json:"auth,omitempty"`
	Path  int `json:"path,omitempty"`
	Query int `json:"query,omitempty"`
	// cookies: letters of the alphabet in message order; Split bit i set = a new Cookie header line starts
	// before pair i+1 (requests; responses have one Set-Cookie line per cookie anyway)
	Seq   []int  `json:"seq,omitempty"`
	Split int    `json:"split,omitempty"`
	Desc  string `json:"desc,omitempty"`
}

type spellForm struct {
	Name, Scheme string
	Origin       bool
}

var spellForms = []spellForm{
	{"absolute_form", "http", false},
	{"origin_form", "http", true},
	{"origin_form_in_tunnel", "https", true},
}

type spellAuth struct {
	Text, Class, Host string // Host = the authority without userinfo = the value of the Host header
}

var spellAuths = []spellAuth{
	{"example.com", "host", "example.com"},
	{"example.com:8080", "port", "example.com:8080"},
	{"EXAMPLE.Com", "mixed_case_host", "EXAMPLE.Com"},
	{"127.0.0.1:8080", "ipv4", "127.0.0.1:8080"},
	{"[::1]", "ipv6", "[::1]"},
	{"[2001:db8::1]:8443", "ipv6", "[2001:db8::1]:8443"},
	// userinfo (absolute-form only: a Host header has none)
	{"user@example.com", "userinfo", "example.com"},
	{"user:pass@example.com:8080", "userinfo", "example.com:8080"},
	{"user:@example.com", "userinfo", "example.com"},
	{"u%40corp:p%3Aw%2Fd@example.com", "userinfo", "example.com"},
	{"user:pass@[::1]:8080", "userinfo", "[::1]:8080"},
}

var spellPaths = []named{
	{Text: "/p/a", Class: "plain"},
	{Text: "", Class: "empty"}, // absolute-form only
	{Text: "/", Class: "root"},
	{Text: "/files/a%2Fb/meta", Class: "escaped_reserved"},
	{Text: "/q%3Fx%23y", Class: "escaped_reserved"},
	{Text: "/search/50%25%2Foff", Class: "escaped_reserved"},
	{Text: "/100%25", Class: "escaped_reserved"},
	{Text: "/a%2fb%3f", Class: "escaped_spelling"}, // lower-case hex digits
	{Text: "/%41b%7Ec", Class: "escaped_spelling"}, // escaped unreserved characters
	{Text: "/sp%20ace/%E2%82%AC", Class: "escaped_octets"},
	{Text: "/%FF%FE", Class: "escaped_octets"},
	{Text: "/semi;v=1/x,y=z", Class: "literal_reserved"},
	{Text: "/sub!$&'()*+,;=:@end", Class: "literal_reserved"},
	{Text: "/a//b/", Class: "segments"},
	{Text: "/./a/../b", Class: "segments"},
	{Text: "//lead", Class: "segments"},
	{Text: "/p/a/", Class: "segments"},
}

type spellQuery struct {
	Text, Class string // Text includes the "?"
	Truth       []msggen.KV
}

var spellQueries = []spellQuery{
	{"", "none", nil},
	{"?", "bare_question_mark", nil},
	{"?a=1", "plain", []msggen.KV{{Name: "a", Value: "1"}}},
	{"?a=&b&c=", "empty_values", []msggen.KV{{Name: "a", Value: ""}, {Name: "b", Value: ""}, {Name: "c", Value: ""}}},
	{"?a=1&a=2&%3D=%26", "escaped", []msggen.KV{{Name: "a", Value: "1"}, {Name: "a", Value: "2"}, {Name: "=", Value: "&"}}},
	{"?x=a%2Fb&y=%3F%23%25", "escaped", []msggen.KV{{Name: "x", Value: "a/b"}, {Name: "y", Value: "?#%"}}},
	{"?q=a+b%20c", "escaped", []msggen.KV{{Name: "q", Value: "a b c"}}},
	{"?next=/login?u=1&r=a/b:c@d", "literal_reserved", []msggen.KV{{Name: "next", Value: "/login?u=1"}, {Name: "r", Value: "a/b:c@d"}}},
	{"?&&", "empty_pairs", nil},
	{"?=", "empty_pairs", []msggen.KV{{Name: "", Value: ""}}},
	{"?a=1&", "empty_pairs", []msggen.KV{{Name: "a", Value: "1"}}},
}

var spellDimNames = []string{"target", "authority", "path", "query"}

func (id spellID) dims() []int { return []int{id.Form, id.Auth, id.Path, id.Query} }

func (id spellID) withDim(d, v int) spellID {
	switch d {
	case 0:
		id.Form = v
	case 1:
		id.Auth = v
	case 2:
		id.Path = v
	case 3:
		id.Query = v
	}
	return id
}

func (id spellID) dimClass(d int) string {
	switch d {
	case 0:
		return spellForms[id.Form].Name
	case 1:
		return spellAuths[id.Auth].Class
	case 2:
		return spellPaths[id.Path].Class
	}
	return spellQueries[id.Query].Class
}

// validURL: origin-form has neither userinfo nor an empty path.
func (id spellID) validURL() bool {
	if spellForms[id.Form].Origin {
		return spellAuths[id.Auth].Class != "userinfo" && spellPaths[id.Path].Text != ""
	}
	return true
}

// spellReqCookies / spellResCookies: the alphabets of the cookie sub-families.
var spellReqCookies = []msggen.Cookie{
	{Name: "sid", Value: "root"},
	{Name: "sid", Value: "app"},
	{Name: "theme", Value: "dark"},
	{Name: "SID", Value: "upper"}, // cookie names are case-sensitive: not a repetition of sid
}

var spellResCookies = []struct {
	Line  string
	Truth msggen.Cookie
}{
	{"sid=R1; Path=/; Domain=example.com", msggen.Cookie{Name: "sid", Value: "R1", Path: "/", Domain: "example.com"}},
	{"sid=A1; Path=/app; Domain=www.example.com", msggen.Cookie{Name: "sid", Value: "A1", Path: "/app", Domain: "www.example.com"}},
	{"sid=A1; Path=/app", msggen.Cookie{Name: "sid", Value: "A1", Path: "/app"}},
	{"sid=; Path=/; Expires=Thu, 01 Jan 1970 00:00:01 GMT", msggen.Cookie{Name: "sid", Value: "", Path: "/", Expires: "1970-01-01T00:00:01Z"}},
	{"theme=light; Path=/", msggen.Cookie{Name: "theme", Value: "light", Path: "/"}},
	{"sid=R1; Path=/; Domain=example.com; Secure; HttpOnly", msggen.Cookie{Name: "sid", Value: "R1", Path: "/", Domain: "example.com", Secure: true, HTTPOnly: true}},
}

func (id spellID) cookieTruth() []msggen.Cookie {
	out := []msggen.Cookie{}
	for _, x := range id.Seq {
		if id.Sub == "reqcookies" {
			out = append(out, spellReqCookies[x])
		} else {
			out = append(out, spellResCookies[x].Truth)
		}
	}
	return out
}

// cookieClass: repeated_name = one name carried by two different cookies (other value or attributes);
// repeated_cookie = the only repetitions are exact copies of a cookie.
func (id spellID) cookieClass() string {
	seen := map[string]msggen.Cookie{}
	class := "distinct_names"
	for _, c := range id.cookieTruth() {
		if prev, ok := seen[c.Name]; ok {
			if prev != c {
				return "repeated_name"
			}
			class = "repeated_cookie"
		}
		seen[c.Name] = c
	}
	if len(id.Seq) == 0 {
		return "none"
	}
	return class
}

func (id spellID) describe() string {
	switch id.Sub {
	case "url":
		return fmt.Sprintf("url: %s, authority %q (%s), path %q (%s), query %q (%s)", spellForms[id.Form].Name, spellAuths[id.Auth].Text, spellAuths[id.Auth].Class,
			spellPaths[id.Path].Text, spellPaths[id.Path].Class, spellQueries[id.Query].Text, spellQueries[id.Query].Class)
	case "reqcookies":
		return fmt.Sprintf("request cookies: header lines %q", id.cookieLines())
	}
	return fmt.Sprintf("response cookies: Set-Cookie lines %q", id.cookieLines())
}

// cookieLines: the values of the Cookie / Set-Cookie header lines of the message, in order.
func (id spellID) cookieLines() []string {
	lines := []string{}
	if id.Sub == "rescookies" {
		for _, x := range id.Seq {
			lines = append(lines, spellResCookies[x].Line)
		}
		return lines
	}
	for i, x := range id.Seq {
		pair := spellReqCookies[x].Name + "=" + spellReqCookies[x].Value
		if i == 0 || id.Split&(1<<(i-1)) != 0 {
			lines = append(lines, pair)
		} else {
			lines[len(lines)-1] += "; " + pair
		}
	}
	return lines
}

// spellMsg builds the message of a case with its ground truth. m.Target is the URL of the message (what the
// entry must show); the request-target on the wire is returned separately.
func spellMsg(id spellID) *msggen.Msg {
	var w strings.Builder
	if id.Sub == "rescookies" {
		m := &msggen.Msg{
			Spec:  msggen.Spec{Space: "spelling", Kind: "response", Status: 200, Version: "1.1", Size: 2, Framing: "cl", Enc: "none", CT: "text"},
			Proto: "HTTP/1.1", Status: 200, Reason: "OK", ContentType: "text/plain", Payload: []byte("ok"), Encoded: []byte("ok"), Decodable: true, BodyAllowed: true, ForMethod: "GET",
			Cookies: id.cookieTruth(),
		}
		m.Headers = []msggen.KV{{Name: "Content-Type", Value: "text/plain"}, {Name: "Content-Length", Value: "2"}}
		for _, l := range id.cookieLines() {
			m.Headers = append(m.Headers, msggen.KV{Name: "Set-Cookie", Value: l})
		}
		w.WriteString("HTTP/1.1 200 OK\r\n")
		for _, kv := range m.Headers {
			w.WriteString(kv.Name + ": " + kv.Value + "\r\n")
		}
		w.WriteString("\r\nok")
		m.Wire = []byte(w.String())
		return m
	}
	m := &msggen.Msg{
		Spec:   msggen.Spec{Space: "spelling", Kind: "request", Method: "GET", Version: "1.1", Framing: "none", Enc: "none", CT: "none"},
		Method: "GET", Proto: "HTTP/1.1", Decodable: true, ForMethod: "GET",
	}
	wireTarget := ""
	if id.Sub == "url" {
		f, a, p, q := spellForms[id.Form], spellAuths[id.Auth], spellPaths[id.Path], spellQueries[id.Query]
		m.Host = a.Host
		m.Query = q.Truth
		if f.Origin {
			wireTarget = p.Text + q.Text
			m.Target = f.Scheme + "://" + a.Host + wireTarget
		} else {
			wireTarget = f.Scheme + "://" + a.Text + p.Text + q.Text
			m.Target = wireTarget
		}
	} else {
		m.Host = "www.example.com"
		wireTarget = "http://www.example.com/app/"
		m.Target = wireTarget
		m.Cookies = id.cookieTruth()
	}
	m.Headers = []msggen.KV{{Name: "Host", Value: m.Host}, {Name: "User-Agent", Value: "msggen/1"}}
	if id.Sub == "reqcookies" {
		for _, l := range id.cookieLines() {
			m.Headers = append(m.Headers, msggen.KV{Name: "Cookie", Value: l})
		}
	}
	w.WriteString("GET " + wireTarget + " HTTP/1.1\r\n")
	for _, kv := range m.Headers {
		w.WriteString(kv.Name + ": " + kv.Value + "\r\n")
	}
	w.WriteString("\r\n")
	m.Wire = []byte(w.String())
	return m
}

type spellStats struct {
	transitions, jsonBytes, reruns int64
}

// runSpellCase logs the message of one case and returns the findings with the older families' signatures
// stripped to their symptom part.
func runSpellCase(id spellID, st *spellStats) (fs []finding) {
	add := func(sym, desc string) { fs = append(fs, finding{sym, desc}) }
	defer func() {
		if r := recover(); r != nil {
			if s, ok := r.(string); ok && strings.HasPrefix(s, "generator") {
				panic(r)
			}
			add("panic", fmt.Sprintf("panic: %v", r))
		}
	}()
	m := spellMsg(id)
	isReq := m.Spec.Kind == "request"
	var req *http.Request
	var res *http.Response
	var err error
	if isReq {
		req, err = m.ParseRequest()
	} else {
		req = m.Request()
		res, err = m.ParseResponse(req)
	}
	if err != nil {
		panic(fmt.Sprintf("generator produced an unparseable message for %+v: %v", id, err))
	}
	if isReq {
		// what martian's proxy does with every request before the modifiers run (proxy.go, handle)
		req.URL.Scheme = "http"
		if id.Sub == "url" {
			req.URL.Scheme = spellForms[id.Form].Scheme
		}
		if req.URL.Host == "" {
			req.URL.Host = req.Host
		}
	}
	_, remove, err := martian.TestContext(req, nil, nil)
	if err != nil {
		panic("generator: " + err.Error())
	}
	defer remove()
	l := har.NewLogger()
	lerr := l.ModifyRequest(req)
	atomic.AddInt64(&st.transitions, 1)
	if lerr == nil && !isReq {
		res.Request = req
		lerr = l.ModifyResponse(res)
		atomic.AddInt64(&st.transitions, 1)
	}
	if lerr != nil {
		add("logger_error", fmt.Sprintf("the logger returned %q; the exchange is not (fully) logged", lerr))
		return
	}
	h := l.Export()
	atomic.AddInt64(&st.transitions, 1)
	if len(h.Log.Entries) != 1 {
		add("entry_count", fmt.Sprintf("%d entries after one exchange", len(h.Log.Entries)))
		return
	}
	e := h.Log.Entries[0]
	strip := func(sig string) string {
		for _, p := range []string{"har:request:", "har:response:", "har:"} {
			if strings.HasPrefix(sig, p) {
				return strings.TrimPrefix(sig, p)
			}
		}
		return sig
	}
	if isReq {
		for _, f := range checkRequest(m, true, e.Request) {
			add(strip(f.sig), f.desc)
		}
	} else {
		for _, f := range checkResponse(m, true, e.Response) {
			add(strip(f.sig), f.desc)
		}
	}
	rw := httptest.NewRecorder()
	har.NewExportHandler(l).ServeHTTP(rw, httptest.NewRequest("GET", "/logs", nil))
	atomic.AddInt64(&st.transitions, 1)
	atomic.AddInt64(&st.jsonBytes, int64(rw.Body.Len()))
	var back har.HAR
	if rw.Code != 200 || !json.Valid(rw.Body.Bytes()) {
		add("json_roundtrip:invalid_json", fmt.Sprintf("export handler answered %d with %d bytes %s", rw.Code, rw.Body.Len(), clip(rw.Body.String())))
		return
	}
	if err := json.Unmarshal(rw.Body.Bytes(), &back); err != nil || back.Log == nil || len(back.Log.Entries) != 1 {
		add("json_roundtrip:unmarshal_error", fmt.Sprintf("cannot parse the exported JSON back into one entry: %v", err))
		return
	}
	for _, f := range roundTrip(m, m.Spec.Kind, e, back.Log.Entries[0]) {
		add(strip(f.sig), f.desc)
	}
	return
}

func hasSymptom(fs []finding, sym string) bool {
	for _, f := range fs {
		if f.sig == sym {
			return true
		}
	}
	return false
}

// urlTag names the deviations responsible for a symptom: the first smallest subset of the case's non-default
// dimensions that, with the other dimensions at their defaults, still shows the symptom.
func urlTag(id spellID, symptom string, st *spellStats) string {
	var dev []int
	for d, v := range id.dims() {
		if v != 0 {
			dev = append(dev, d)
		}
	}
	tagOf := func(ds []int) string {
		if len(ds) == 0 {
			return "default_spelling"
		}
		var parts []string
		for _, d := range ds {
			parts = append(parts, spellDimNames[d]+"="+id.dimClass(d))
		}
		return strings.Join(parts, "+")
	}
	for size := 0; size < len(dev); size++ {
		var found []int
		var rec func(start int, cur []int)
		rec = func(start int, cur []int) {
			if found != nil {
				return
			}
			if len(cur) == size {
				red := spellID{Sub: "url"}
				for _, d := range cur {
					red = red.withDim(d, id.dims()[d])
				}
				if !red.validURL() {
					return
				}
				atomic.AddInt64(&st.reruns, 1)
				if hasSymptom(runSpellCase(red, st), symptom) {
					found = append([]int{}, cur...)
					if found == nil {
						found = []int{}
					}
				}
				return
			}
			for i := start; i < len(dev); i++ {
				rec(i+1, append(cur, dev[i]))
			}
		}
		rec(0, []int{})
		if found != nil {
			return tagOf(found)
		}
	}
	return tagOf(dev)
}

func runSpellingFamily(rep *lib.Report, tier string, only *replayCase) map[string]int64 {
	var ids []spellID
	var urls, reqCk, resCk, invalid int64
	maxReq, maxRes := 4, 4
	if tier == "thorough" {
		maxReq, maxRes = 6, 5
	}
	if only != nil {
		ids = append(ids, *only.Spell)
	} else {
		// URLs, simplest first: by the number of dimensions that deviate from the default spelling
		var us []spellID
		lib.Product([]int{len(spellForms), len(spellAuths), len(spellPaths), len(spellQueries)}, func(x []int) {
			id := spellID{Sub: "url", Form: x[0], Auth: x[1], Path: x[2], Query: x[3]}
			if !id.validURL() {
				invalid++
				return
			}
			us = append(us, id)
		})
		weight := func(id spellID) int {
			n := 0
			for _, v := range id.dims() {
				if v != 0 {
					n++
				}
			}
			return n
		}
		sort.SliceStable(us, func(i, j int) bool { return weight(us[i]) < weight(us[j]) })
		urls = int64(len(us))
		ids = append(ids, us...)
		// cookie sequences, shortest first
		var seqs func(sub string, letters, n int, cur []int)
		seqs = func(sub string, letters, n int, cur []int) {
			if len(cur) == n {
				splits := 1
				if sub == "reqcookies" && n > 1 {
					splits = 1 << (n - 1)
				}
				for s := 0; s < splits; s++ {
					ids = append(ids, spellID{Sub: sub, Seq: append([]int{}, cur...), Split: s})
					if sub == "reqcookies" {
						reqCk++
					} else {
						resCk++
					}
				}
				return
			}
			for x := 0; x < letters; x++ {
				seqs(sub, letters, n, append(cur, x))
			}
		}
		for n := 0; n <= maxReq; n++ {
			seqs("reqcookies", len(spellReqCookies), n, nil)
		}
		for n := 0; n <= maxRes; n++ {
			seqs("rescookies", len(spellResCookies), n, nil)
		}
	}

	var st spellStats
	var nontrivial, violCases, repeated int64
	type pv struct {
		sig, desc string
		rc        replayCase
	}
	pending := make([][]pv, len(ids))
	var mu sync.Mutex
	symptoms := map[string]int64{}
	fatal := ""
	lib.Parallel(len(ids), func(i int) {
		id := ids[i]
		defer func() {
			if r := recover(); r != nil { // only generator invariants get here
				mu.Lock()
				if fatal == "" {
					fatal = fmt.Sprint(r)
				}
				mu.Unlock()
			}
		}()
		switch {
		case id.Sub == "url":
			for _, v := range id.dims() {
				if v != 0 {
					atomic.AddInt64(&nontrivial, 1)
					break
				}
			}
		case strings.HasPrefix(id.cookieClass(), "repeated_"):
			atomic.AddInt64(&nontrivial, 1)
			atomic.AddInt64(&repeated, 1)
		}
		if i%499 == 0 {
			rep.Sample(16, map[string]interface{}{"spelling_case": id.describe()})
		}
		fs := runSpellCase(id, &st)
		if len(fs) == 0 {
			return
		}
		atomic.AddInt64(&violCases, 1)
		rid := id
		rid.Desc = id.describe()
		for _, f := range fs {
			var sig string
			switch id.Sub {
			case "url":
				sig = fmt.Sprintf("har:spelling:request:url(%s):%s", urlTag(id, f.sig, &st), f.sig)
			case "reqcookies":
				sig = fmt.Sprintf("har:spelling:request:cookies(%s):%s", id.cookieClass(), f.sig)
			default:
				sig = fmt.Sprintf("har:spelling:response:cookies(%s):%s", id.cookieClass(), f.sig)
			}
			mu.Lock()
			symptoms[f.sig]++
			mu.Unlock()
			pending[i] = append(pending[i], pv{sig, fmt.Sprintf("[%s]: %s", id.describe(), f.desc), replayCase{Option: "all", Spell: &rid}})
		}
	})
	if fatal != "" {
		fmt.Fprintln(os.Stderr, "C16 spelling family: harness invariant broken:", fatal)
		os.Exit(2)
	}
	for _, ps := range pending {
		for _, v := range ps {
			rep.Violate(v.sig, v.desc, v.rc)
		}
	}
	rep.Coverage["spelling_symptoms"] = symptoms
	return map[string]int64{
		"spelling_cases":                                 int64(len(ids)),
		"spelling_url_cases":                             urls,
		"spelling_url_combinations_not_valid":            invalid,
		"spelling_request_cookie_cases":                  reqCk,
		"spelling_response_cookie_cases":                 resCk,
		"spelling_cookie_cases_with_repeated_name":       repeated,
		"spelling_cases_nondefault_url_or_repeated_name": nontrivial,
		"spelling_transitions":                           st.transitions,
		"spelling_json_bytes":                            st.jsonBytes,
		"spelling_violating_cases":                       violCases,
		"spelling_reruns_for_signature":                  st.reruns,
		"spelling_max_request_cookies":                   int64(maxReq),
		"spelling_max_set_cookie_lines":                  int64(maxRes),
	}
}
