// C16 — HAR entries faithfully describe the exchange and survive a JSON round trip.
//
// Bounded-exhaustive check against a reference model that is computed from the generator's ground truth
// (the lists the wire bytes were produced from), never from martian's parsing. Every message of
// msggen.BodySpace ∪ msggen.HeaderSpace is parsed from its wire bytes, logged by a har.Logger configured with
// each post-data/body capture option {all, none, opt-in prefix list, opt-out prefix list}, and the entry
// obtained from Logger.Export is compared field by field with the model: method, URL, HTTP version, status,
// header multiset (every header line of the wire, including Host, Content-Length, Transfer-Encoding), query
// parameters, cookies, redirect URL, post data (the body as the origin receives it: chunk framing removed,
// content coding untouched; parameters for form and multipart bodies), response content (fully decoded body
// and its true size). The JSON written by the export handler is parsed back and must describe the same
// entries (non-UTF-8 bytes included). Capture must follow the configured content-type option.
package main

import (
	"encoding/json"
	"fmt"
	"net/http"
	"net/http/httptest"
	"os"
	"runtime/debug"
	"sort"
	"strings"
	"sync"
	"sync/atomic"
	"unicode/utf8"

	"github.com/google/martian/v3"
	"github.com/google/martian/v3/har"
	mlog "github.com/google/martian/v3/log"

	"verif/checks/msggen"
	"verif/lib"
)

type option struct {
	Name    string
	apply   func(l *har.Logger)
	capture func(m *msggen.Msg) bool // reference: is the body of m to be captured under this option?
	// Extra options (everything beyond the four paired ones) are run on the sub-space of the body sizes
	// extraOptionSizes (all of the header and edge spaces' small bodies, four classes of the body space):
	// whether a body is captured does not depend on its size.
	Extra bool
}

var extraOptionSizes = map[int]bool{0: true, 1: true, 5: true, 300: true, 513: true, 4096: true}

var (
	optIn  = []string{"text/", "application/json", "form-data"}   // "form-data" is a substring, not a prefix, of multipart/form-data
	optOut = []string{"application/octet", "multipart/", "plain"} // "plain" is a substring, not a prefix, of text/plain
)

func ctHasPrefix(m *msggen.Msg, prefixes ...string) bool {
	ct := strings.ToLower(m.ContentType)
	for _, p := range prefixes {
		if strings.HasPrefix(ct, strings.ToLower(p)) {
			return true
		}
	}
	return false
}

func isRequest(m *msggen.Msg) bool { return m.Spec.Kind == "request" }

var (
	optUpper = []string{"TEXT/", "Application/X-WWW", "multipart/form-data; boundary=" + msggen.Boundary}
	optOne   = []string{"application/"}
)

var options = []option{
	{"all", func(l *har.Logger) {}, func(m *msggen.Msg) bool { return true }, false},
	{"none", func(l *har.Logger) { l.SetOption(har.PostDataLogging(false), har.BodyLogging(false)) }, func(m *msggen.Msg) bool { return false }, false},
	{"optin", func(l *har.Logger) {
		l.SetOption(har.PostDataLoggingForContentTypes(optIn...), har.BodyLoggingForContentTypes(optIn...))
	}, func(m *msggen.Msg) bool { return ctHasPrefix(m, optIn...) }, false},
	{"optout", func(l *har.Logger) {
		l.SetOption(har.SkipPostDataLoggingForContentTypes(optOut...), har.SkipBodyLoggingForContentTypes(optOut...))
	}, func(m *msggen.Msg) bool { return !ctHasPrefix(m, optOut...) }, false},

	// the post-data option and the body option are independent settings
	{"post=all,body=none", func(l *har.Logger) { l.SetOption(har.PostDataLogging(true), har.BodyLogging(false)) },
		func(m *msggen.Msg) bool { return isRequest(m) }, true},
	{"post=none,body=all", func(l *har.Logger) { l.SetOption(har.BodyLogging(true), har.PostDataLogging(false)) },
		func(m *msggen.Msg) bool { return !isRequest(m) }, true},
	{"post=optin,body=optout", func(l *har.Logger) {
		l.SetOption(har.PostDataLoggingForContentTypes(optIn...), har.SkipBodyLoggingForContentTypes(optOut...))
	}, func(m *msggen.Msg) bool {
		if isRequest(m) {
			return ctHasPrefix(m, optIn...)
		}
		return !ctHasPrefix(m, optOut...)
	}, true},
	{"post=optout,body=optin", func(l *har.Logger) {
		l.SetOption(har.BodyLoggingForContentTypes(optIn...), har.SkipPostDataLoggingForContentTypes(optOut...))
	}, func(m *msggen.Msg) bool {
		if isRequest(m) {
			return !ctHasPrefix(m, optOut...)
		}
		return ctHasPrefix(m, optIn...)
	}, true},
	{"post=optin(one),body=optin", func(l *har.Logger) {
		l.SetOption(har.PostDataLoggingForContentTypes(optOne...), har.BodyLoggingForContentTypes(optIn...))
	}, func(m *msggen.Msg) bool {
		if isRequest(m) {
			return ctHasPrefix(m, optOne...)
		}
		return ctHasPrefix(m, optIn...)
	}, true},
	// option histories: the setting made last is the one in force
	{"none,then all", func(l *har.Logger) {
		l.SetOption(har.PostDataLogging(false), har.BodyLogging(false))
		l.SetOption(har.PostDataLogging(true))
		l.SetOption(har.BodyLogging(true))
	}, func(m *msggen.Msg) bool { return true }, true},
	{"optin,then optout", func(l *har.Logger) {
		l.SetOption(har.PostDataLoggingForContentTypes(optIn...), har.BodyLoggingForContentTypes(optIn...))
		l.SetOption(har.SkipPostDataLoggingForContentTypes(optOut...), har.SkipBodyLoggingForContentTypes(optOut...))
	}, func(m *msggen.Msg) bool { return !ctHasPrefix(m, optOut...) }, true},
	{"optout,then none,then optin(upper)", func(l *har.Logger) {
		l.SetOption(har.SkipPostDataLoggingForContentTypes(optOut...), har.SkipBodyLoggingForContentTypes(optOut...))
		l.SetOption(har.BodyLogging(false), har.PostDataLogging(false))
		l.SetOption(har.BodyLoggingForContentTypes(optUpper...), har.PostDataLoggingForContentTypes(optUpper...))
	}, func(m *msggen.Msg) bool { return ctHasPrefix(m, optUpper...) }, true},
	// empty lists: opting in to nothing captures nothing, opting out of nothing captures everything
	{"optin(empty)", func(l *har.Logger) {
		l.SetOption(har.PostDataLoggingForContentTypes(), har.BodyLoggingForContentTypes())
	}, func(m *msggen.Msg) bool { return false }, true},
	{"optout(empty)", func(l *har.Logger) {
		l.SetOption(har.SkipPostDataLoggingForContentTypes(), har.SkipBodyLoggingForContentTypes())
	}, func(m *msggen.Msg) bool { return true }, true},
}

type replayCase struct {
	Spec    msggen.Spec `json:"spec"`
	Option  string      `json:"option"`
	Session *sessionID  `json:"session,omitempty"` // set for cases of the session family
	History *historyID  `json:"history,omitempty"` // set for cases of the history family
	Mime    *mimeID     `json:"mime,omitempty"`    // set for cases of the MIME spelling family
	Spell   *spellID    `json:"spell,omitempty"`   // set for cases of the URL / cookie spelling family
}

// ---- scenario classes -------------------------------------------------------------------------------------

func ctClass(m *msggen.Msg) string {
	switch {
	case m.Form != nil:
		return "form"
	case m.Parts != nil:
		return "multipart"
	}
	return ""
}

// bodyTag is the scenario class used for body-related symptoms. Requests: HAR never undoes a request's
// content coding, so the coding only matters for form/multipart bodies (whose parameters cannot be parsed
// from coded bytes, whatever the framing); everything else is classified by framing alone. Responses:
// framing plus the declared coding.
func bodyTag(m *msggen.Msg) string {
	if m.Spec.Kind == "request" {
		switch m.Spec.Adjust {
		case "te+cl":
			return "chunked+content-length"
		case "unknown-length":
			return "unknown-length"
		}
		if m.Spec.Enc != "none" && ctClass(m) != "" {
			return "content-coded,ct=" + ctClass(m)
		}
		return m.Spec.Framing
	}
	t := m.Spec.Framing
	if m.Spec.Enc != "none" {
		t += ",content-coded"
	}
	return t
}

func errorTag(m *msggen.Msg, captures bool) string {
	if m.Spec.Kind == "request" && captures && ctClass(m) != "" {
		switch {
		case m.Spec.Enc != "none":
			return "content-coded,ct=" + ctClass(m)
		case len(m.Encoded) == 0:
			return "empty_body(" + m.Spec.Framing + "),ct=" + ctClass(m)
		case m.Spec.Framing == "chunked":
			return "chunked,ct=" + ctClass(m)
		}
		return "ct=" + ctClass(m)
	}
	t := "ce=" + m.DeclaredCE
	if m.DeclaredCE == "" {
		t = "ce=none"
	}
	if captures {
		if strings.HasPrefix(m.Spec.Enc, "deflate-zlib") {
			t += "(zlib-wrapped)"
		}
		if m.Corrupt {
			t += "(corrupt)"
		}
		if len(m.Encoded) == 0 {
			t += ",empty_body"
		}
	}
	return t
}

// ---- comparison helpers ---------------------------------------------------------------------------------

func headerStrings(hs []har.Header) []string {
	out := make([]string, 0, len(hs))
	for _, h := range hs {
		out = append(out, normHeader(h.Name, h.Value))
	}
	sort.Strings(out)
	return out
}

// normHeader renders one header line; the value of Trailer is a set of field names, compared as such.
func normHeader(name, value string) string {
	if name == "Trailer" {
		var ns []string
		for _, n := range strings.Split(value, ",") {
			ns = append(ns, http.CanonicalHeaderKey(strings.TrimSpace(n)))
		}
		sort.Strings(ns)
		value = strings.Join(ns, ",")
	}
	return name + ": " + value
}

func wantHeaders(m *msggen.Msg) []string {
	out := make([]string, 0, len(m.Headers))
	for _, kv := range m.Headers {
		if staleContentLength(m, kv.Name) {
			continue
		}
		out = append(out, normHeader(kv.Name, kv.Value))
	}
	sort.Strings(out)
	return out
}

// staleContentLength: the modifier of an "unknown-length" message declared the length unknown (ContentLength
// -1), so the Content-Length line of the wire is no longer a header of the message (net/http sends the body
// chunked). Whether the HAR list may still show it is judged by the history family (round 6), which compares
// with what the peer receives; the single-message families do not judge that one line in that one state.
func staleContentLength(m *msggen.Msg, name string) bool {
	return m.Spec.Adjust == "unknown-length" && name == "Content-Length"
}

func nameOf(line string) string { return strings.SplitN(line, ":", 2)[0] }

// multisetDiff returns the sorted distinct header names that are missing from / extra in got.
func multisetDiff(want, got []string) (missing, extra []string) {
	cnt := map[string]int{}
	for _, w := range want {
		cnt[w]++
	}
	for _, g := range got {
		cnt[g]--
	}
	ms, es := map[string]bool{}, map[string]bool{}
	for k, c := range cnt {
		if c > 0 {
			ms[nameOf(k)] = true
		}
		if c < 0 {
			es[nameOf(k)] = true
		}
	}
	for k := range ms {
		missing = append(missing, k)
	}
	for k := range es {
		extra = append(extra, k)
	}
	sort.Strings(missing)
	sort.Strings(extra)
	return
}

// byName groups values per name, keeping the order of values of one name (the order between different names
// is not compared: HAR lists are built from maps).
func byName(kvs []msggen.KV) map[string][]string {
	out := map[string][]string{}
	for _, kv := range kvs {
		out[kv.Name] = append(out[kv.Name], kv.Value)
	}
	return out
}

func equalGroups(a, b map[string][]string) bool {
	if len(a) != len(b) {
		return false
	}
	for k, va := range a {
		vb, ok := b[k]
		if !ok || len(va) != len(vb) {
			return false
		}
		for i := range va {
			if va[i] != vb[i] {
				return false
			}
		}
	}
	return true
}

func cookieList(cs []har.Cookie) []msggen.Cookie {
	out := make([]msggen.Cookie, 0, len(cs))
	for _, c := range cs {
		out = append(out, msggen.Cookie{Name: c.Name, Value: c.Value, Path: c.Path, Domain: c.Domain, Expires: c.Expires8601, HTTPOnly: c.HTTPOnly, Secure: c.Secure})
	}
	return out
}

func equalCookies(a, b []msggen.Cookie) bool {
	if len(a) != len(b) {
		return false
	}
	for i := range a {
		if a[i] != b[i] {
			return false
		}
	}
	return true
}

func mimeOK(got, header string) bool {
	if strings.EqualFold(got, header) {
		return true
	}
	mt := strings.TrimSpace(strings.SplitN(header, ";", 2)[0])
	return strings.EqualFold(got, mt)
}

func clip(s string) string {
	if len(s) > 120 {
		return fmt.Sprintf("%q...(%d bytes)", s[:120], len(s))
	}
	return fmt.Sprintf("%q", s)
}

// ---- model checks ----------------------------------------------------------------------------------------

type finding struct{ sig, desc string }

func checkCommonHeaders(kind string, m *msggen.Msg, got []har.Header) []finding {
	want := wantHeaders(m)
	if m.Spec.Adjust == "unknown-length" {
		kept := make([]har.Header, 0, len(got))
		for _, h := range got {
			if !staleContentLength(m, h.Name) {
				kept = append(kept, h)
			}
		}
		got = kept
	}
	missing, extra := multisetDiff(want, headerStrings(got))
	if len(missing) == 0 && len(extra) == 0 {
		return nil
	}
	var parts []string
	if len(missing) > 0 {
		parts = append(parts, "missing("+strings.Join(missing, ",")+")")
	}
	if len(extra) > 0 {
		parts = append(parts, "extra("+strings.Join(extra, ",")+")")
	}
	return []finding{{fmt.Sprintf("har:%s:headers:%s", kind, strings.Join(parts, "+")),
		fmt.Sprintf("header list %v, the message has %v", headerStrings(got), want)}}
}

func checkRequest(m *msggen.Msg, capture bool, r *har.Request) (out []finding) {
	add := func(sig, desc string) { out = append(out, finding{sig, desc}) }
	if r == nil {
		add("har:request:entry_missing", "no request in the entry")
		return
	}
	if r.Method != m.Method {
		add("har:request:method_mismatch", fmt.Sprintf("method %q, message %q", r.Method, m.Method))
	}
	if r.URL != m.Target {
		add("har:request:url_mismatch", fmt.Sprintf("url %q, message %q", r.URL, m.Target))
	}
	if r.HTTPVersion != m.Proto {
		add("har:request:http_version_mismatch", fmt.Sprintf("httpVersion %q, message %q", r.HTTPVersion, m.Proto))
	}
	out = append(out, checkCommonHeaders("request", m, r.Headers)...)
	var q []msggen.KV
	for _, x := range r.QueryString {
		q = append(q, msggen.KV{Name: x.Name, Value: x.Value})
	}
	if !equalGroups(byName(q), byName(m.Query)) {
		add("har:request:query_mismatch", fmt.Sprintf("queryString %v, message %v", q, m.Query))
	}
	if !equalCookies(cookieList(r.Cookies), m.Cookies) {
		add("har:request:cookies_mismatch", fmt.Sprintf("cookies %+v, message %+v", cookieList(r.Cookies), m.Cookies))
	}

	pd := r.PostData
	raw := string(m.Encoded)
	if len(m.Encoded) == 0 {
		if pd != nil && (pd.Text != "" || len(pd.Params) > 0) {
			add("har:request:"+bodyTag(m)+":postdata_mismatch", fmt.Sprintf("the request body is empty but postData is %+v", *pd))
		}
		return
	}
	if pd == nil {
		add("har:request:"+bodyTag(m)+":postdata_missing", "the request has a body but the entry has no postData")
		return
	}
	if !mimeOK(pd.MimeType, m.ContentType) {
		add("har:request:postdata_mimetype_mismatch", fmt.Sprintf("mimeType %q, Content-Type %q", pd.MimeType, m.ContentType))
	}
	if !capture {
		if pd.Text != "" || len(pd.Params) > 0 {
			add("har:request:capture_option:postdata_captured_though_disabled", fmt.Sprintf("Content-Type %q must not be captured, got text %s / %d params", m.ContentType, clip(pd.Text), len(pd.Params)))
		}
		return
	}
	paramsOK := func() bool {
		switch {
		case m.Form != nil:
			var got []msggen.KV
			for _, p := range pd.Params {
				if p.Filename != "" || p.ContentType != "" {
					return false
				}
				got = append(got, msggen.KV{Name: p.Name, Value: p.Value})
			}
			return equalGroups(byName(got), byName(m.Form))
		case m.Parts != nil:
			if len(pd.Params) != len(m.Parts) {
				return false
			}
			for i, p := range pd.Params {
				w := m.Parts[i]
				if p.Name != w.Name || p.Value != w.Value || p.Filename != w.Filename || p.ContentType != w.ContentType {
					return false
				}
			}
			return true
		}
		return len(pd.Params) == 0
	}
	describe := func() string {
		var ps []string
		for i, p := range pd.Params {
			if i == 4 {
				ps = append(ps, "...")
				break
			}
			ps = append(ps, fmt.Sprintf("{%s %s %s %s}", clip(p.Name), clip(p.Value), p.Filename, p.ContentType))
		}
		return fmt.Sprintf("text %s params %v", clip(pd.Text), ps)
	}
	switch {
	case ctClass(m) == "":
		if pd.Text != raw || len(pd.Params) > 0 {
			add("har:request:"+bodyTag(m)+":postdata_mismatch", fmt.Sprintf("postData %s; the origin receives %d body bytes %s", describe(), len(raw), clip(raw)))
		}
	case m.Spec.Enc != "none":
		// a content-coded form/multipart body: either the parameters of the decoded body or the raw coded text
		if !(paramsOK() && (pd.Text == "" || pd.Text == raw)) && !(pd.Text == raw && len(pd.Params) == 0) {
			add("har:request:"+bodyTag(m)+":postdata_mismatch", fmt.Sprintf("postData %s is neither the parameters of the body nor its raw bytes", describe()))
		}
	default:
		if !paramsOK() || !(pd.Text == "" || pd.Text == raw) {
			add("har:request:"+bodyTag(m)+":postdata_mismatch", fmt.Sprintf("postData %s; the body carries form=%v parts=%d (first part %+v)", describe(), clipKVs(m.Form), len(m.Parts), firstPart(m)))
		}
	}
	return
}

func clipKVs(kvs []msggen.KV) []string {
	var out []string
	for _, kv := range kvs {
		out = append(out, clip(kv.Name)+"="+clip(kv.Value))
	}
	return out
}

func firstPart(m *msggen.Msg) interface{} {
	if len(m.Parts) == 0 {
		return nil
	}
	return m.Parts[0]
}

func checkResponse(m *msggen.Msg, capture bool, r *har.Response) (out []finding) {
	add := func(sig, desc string) { out = append(out, finding{sig, desc}) }
	if r == nil {
		add("har:response:entry_missing", "no response in the entry")
		return
	}
	if r.Status != m.Status {
		add("har:response:status_mismatch", fmt.Sprintf("status %d, message %d", r.Status, m.Status))
	}
	if r.HTTPVersion != m.Proto {
		add("har:response:http_version_mismatch", fmt.Sprintf("httpVersion %q, message %q", r.HTTPVersion, m.Proto))
	}
	out = append(out, checkCommonHeaders("response", m, r.Headers)...)
	if !equalCookies(cookieList(r.Cookies), m.Cookies) {
		add("har:response:cookies_mismatch", fmt.Sprintf("cookies %+v, message %+v", cookieList(r.Cookies), m.Cookies))
	}
	if r.RedirectURL != m.Location {
		add("har:response:redirect_url_mismatch", fmt.Sprintf("redirectURL %q, Location %q", r.RedirectURL, m.Location))
	}
	c := r.Content
	if c == nil {
		add("har:response:content_missing", "entry has no content object")
		return
	}
	if !mimeOK(c.MimeType, m.ContentType) {
		add("har:response:content_mimetype_mismatch", fmt.Sprintf("mimeType %q, Content-Type %q", c.MimeType, m.ContentType))
	}
	if !capture {
		if len(c.Text) > 0 {
			add("har:response:capture_option:content_captured_though_disabled", fmt.Sprintf("Content-Type %q must not be captured, got %d bytes", m.ContentType, len(c.Text)))
		}
		return
	}
	if m.Corrupt {
		// "fully decoded" is undefined for corrupt data: the body as received or whatever part of it decodes is
		// accepted - but the content is the BODY, for any framing: it never holds chunk-size lines
		if string(c.Text) != string(m.Encoded) && !strings.HasPrefix(string(m.Payload), string(c.Text)) {
			add("har:response:"+bodyTag(m)+",corrupt:content_text_mismatch", fmt.Sprintf("content text %d bytes %s is neither the body as received (%d bytes %s) nor a decodable part of it", len(c.Text), clip(string(c.Text)), len(m.Encoded), clip(string(m.Encoded))))
		} else if c.Size != int64(len(c.Text)) {
			add("har:response:"+bodyTag(m)+",corrupt:content_size_mismatch", fmt.Sprintf("content size %d, the content text has %d bytes", c.Size, len(c.Text)))
		}
		return
	}
	want := m.Payload
	if !m.Decodable {
		want = m.Encoded
	}
	if m.Partial && string(c.Text) == string(m.Encoded) {
		// 206: the body is a fragment of the coded representation, it need not be decodable on its own
		want = m.Encoded
	}
	if string(c.Text) != string(want) {
		add("har:response:"+bodyTag(m)+":content_text_mismatch", fmt.Sprintf("content text %d bytes %s, the decoded body is %d bytes %s", len(c.Text), clip(string(c.Text)), len(want), clip(string(want))))
	} else if c.Size != int64(len(want)) {
		add("har:response:"+bodyTag(m)+":content_size_mismatch", fmt.Sprintf("content size %d, the decoded body has %d bytes", c.Size, len(want)))
	}
	return
}

// ---- JSON round trip -------------------------------------------------------------------------------------

func hasNonUTF8Param(pd *har.PostData) bool {
	if pd == nil {
		return false
	}
	for _, p := range pd.Params {
		if !utf8.ValidString(p.Name) || !utf8.ValidString(p.Value) {
			return true
		}
	}
	return false
}

func hasNonUTF8ParamName(pd *har.PostData) bool {
	if pd == nil {
		return false
	}
	for _, p := range pd.Params {
		if !utf8.ValidString(p.Name) {
			return true
		}
	}
	return false
}

// nonUTF8Headers is the signature suffix for a header list that holds bytes which are not UTF-8.
func nonUTF8Headers(hs []har.Header) string {
	for _, h := range hs {
		if !utf8.ValidString(h.Name) || !utf8.ValidString(h.Value) {
			return "(non_utf8)"
		}
	}
	return ""
}

func equalHeaders(a, b []har.Header) bool {
	if len(a) != len(b) {
		return false
	}
	for i := range a {
		if a[i] != b[i] {
			return false
		}
	}
	return true
}

func truthHasNonUTF8Params(m *msggen.Msg) bool {
	if m.Spec.Enc != "none" {
		return false
	}
	for _, kv := range m.Form {
		if !utf8.ValidString(kv.Name) || !utf8.ValidString(kv.Value) {
			return true
		}
	}
	for _, p := range m.Parts {
		if !utf8.ValidString(p.Name) || !utf8.ValidString(p.Value) {
			return true
		}
	}
	return false
}

func roundTrip(m *msggen.Msg, kind string, orig, back *har.Entry) (out []finding) {
	add := func(what, desc string) {
		out = append(out, finding{"har:json_roundtrip:" + kind + ":" + what, desc})
	}
	if back == nil {
		add("entry_lost", "the parsed JSON has no such entry")
		return
	}
	if back.ID != orig.ID || !back.StartedDateTime.Equal(orig.StartedDateTime) || back.Time != orig.Time {
		add("entry_fields", fmt.Sprintf("id/startedDateTime/time %v %v %v became %v %v %v", orig.ID, orig.StartedDateTime, orig.Time, back.ID, back.StartedDateTime, back.Time))
	}
	if (orig.Request == nil) != (back.Request == nil) || (orig.Response == nil) != (back.Response == nil) {
		add("presence", "request/response presence changed")
		return
	}
	if a, b := orig.Request, back.Request; a != nil && kind == "request" {
		if a.Method != b.Method || a.URL != b.URL || a.HTTPVersion != b.HTTPVersion || a.HeadersSize != b.HeadersSize || a.BodySize != b.BodySize {
			add("request_scalars", fmt.Sprintf("%v became %v", *a, *b))
		}
		if !equalHeaders(a.Headers, b.Headers) {
			add("request_headers"+nonUTF8Headers(a.Headers), fmt.Sprintf("%q became %q", headerStrings(a.Headers), headerStrings(b.Headers)))
		}
		if !equalCookies(cookieList(a.Cookies), cookieList(b.Cookies)) {
			add("request_cookies", fmt.Sprintf("%v became %v", a.Cookies, b.Cookies))
		}
		if fmt.Sprint(a.QueryString) != fmt.Sprint(b.QueryString) || len(a.QueryString) != len(b.QueryString) {
			what := "query"
			for _, q := range a.QueryString {
				if !utf8.ValidString(q.Name) || !utf8.ValidString(q.Value) {
					what = "query(non_utf8)"
				}
			}
			add(what, fmt.Sprintf("%q became %q", a.QueryString, b.QueryString))
		}
		switch {
		case (a.PostData == nil) != (b.PostData == nil):
			add("postdata_presence", "postData presence changed")
		case a.PostData != nil:
			if a.PostData.MimeType != b.PostData.MimeType {
				add("postdata_mimetype", fmt.Sprintf("%q became %q", a.PostData.MimeType, b.PostData.MimeType))
			}
			if a.PostData.Text != b.PostData.Text {
				what := "postdata_text"
				if !utf8.ValidString(a.PostData.Text) {
					what += "(non_utf8)"
				}
				add(what, fmt.Sprintf("%s became %s", clip(a.PostData.Text), clip(b.PostData.Text)))
			}
			same := len(a.PostData.Params) == len(b.PostData.Params)
			for i := 0; same && i < len(a.PostData.Params); i++ {
				same = a.PostData.Params[i] == b.PostData.Params[i]
			}
			if !same {
				what := "postdata_params"
				if hasNonUTF8ParamName(a.PostData) && truthHasNonUTF8Params(m) {
					what += "(non_utf8,parameter_name)"
				} else if hasNonUTF8Param(a.PostData) {
					if truthHasNonUTF8Params(m) {
						what += "(non_utf8,binary_parameter)"
					} else {
						what += "(non_utf8,misparsed_body)"
					}
				}
				add(what, fmt.Sprintf("%d params; first difference: %s", len(a.PostData.Params), firstParamDiff(a.PostData.Params, b.PostData.Params)))
			}
		}
	}
	if a, b := orig.Response, back.Response; a != nil && kind == "response" {
		if a.Status != b.Status || a.StatusText != b.StatusText || a.HTTPVersion != b.HTTPVersion || a.RedirectURL != b.RedirectURL || a.HeadersSize != b.HeadersSize || a.BodySize != b.BodySize {
			add("response_scalars", fmt.Sprintf("status/version/redirect changed: %d %q %q became %d %q %q", a.Status, a.HTTPVersion, a.RedirectURL, b.Status, b.HTTPVersion, b.RedirectURL))
		}
		if !equalHeaders(a.Headers, b.Headers) {
			add("response_headers"+nonUTF8Headers(a.Headers), fmt.Sprintf("%q became %q", headerStrings(a.Headers), headerStrings(b.Headers)))
		}
		if !equalCookies(cookieList(a.Cookies), cookieList(b.Cookies)) {
			add("response_cookies", fmt.Sprintf("%v became %v", a.Cookies, b.Cookies))
		}
		switch {
		case (a.Content == nil) != (b.Content == nil):
			add("content_presence", "content presence changed")
		case a.Content != nil:
			if a.Content.Size != b.Content.Size || a.Content.MimeType != b.Content.MimeType || a.Content.Encoding != b.Content.Encoding {
				add("content_scalars", fmt.Sprintf("%d %q %q became %d %q %q", a.Content.Size, a.Content.MimeType, a.Content.Encoding, b.Content.Size, b.Content.MimeType, b.Content.Encoding))
			}
			if string(a.Content.Text) != string(b.Content.Text) {
				what := "content_text"
				if !utf8.Valid(a.Content.Text) {
					what += "(non_utf8)"
				}
				add(what, fmt.Sprintf("%s became %s", clip(string(a.Content.Text)), clip(string(b.Content.Text))))
			}
		}
	}
	return
}

func firstParamDiff(a, b []har.Param) string {
	for i := range a {
		if i >= len(b) {
			return "fewer params"
		}
		if a[i] != b[i] {
			return fmt.Sprintf("param %d {%s %s %s %s} became {%s %s %s %s}", i, clip(a[i].Name), clip(a[i].Value), a[i].Filename, a[i].ContentType, clip(b[i].Name), clip(b[i].Value), b[i].Filename, b[i].ContentType)
		}
	}
	return "more params"
}

// ---- main -----------------------------------------------------------------------------------------------

func main() {
	mlog.SetLevel(mlog.Silent)
	// the live heap is a few messages and their JSON per worker; collecting less often saves time
	debug.SetGCPercent(400)
	debug.SetMemoryLimit(3 << 30)
	rep := lib.NewReport("C16", "model_checking")
	tier := lib.Tier()
	// quick: every size class up to one bufio buffer with every chunk list, the two large classes with the
	// quick chunk lists; thorough: everything with everything
	body := append(msggen.BodySpaceOf(quickSmallSizes, msggen.ChunkingsThorough), msggen.BodySpaceOf(quickLargeSizes, msggen.ChunkingsQuick)...)
	if tier == "thorough" {
		body = msggen.BodySpaceOf(msggen.SizesThorough, msggen.ChunkingsThorough)
	}
	nBody := len(body)
	specs := append(body, msggen.HeaderSpace("thorough")...)
	nHeader := len(specs) - nBody
	specs = append(specs, msggen.EdgeSpace(tier)...)

	parts := map[string]bool{"single": true, "session": true, "history": true, "mime": true, "spelling": true}
	if p := os.Getenv("VERIF_C16_PARTS"); p != "" { // development aid: run only some families
		parts = map[string]bool{}
		for _, x := range strings.Split(p, ",") {
			parts[x] = true
		}
	}
	var only *replayCase
	if f := os.Getenv("VERIF_REPLAY"); f != "" {
		b, err := os.ReadFile(f)
		if err != nil {
			fmt.Fprintln(os.Stderr, "cannot read replay:", err)
			os.Exit(2)
		}
		var doc struct {
			First struct {
				Replay replayCase `json:"replay"`
			} `json:"first"`
		}
		if err := json.Unmarshal(b, &doc); err != nil {
			fmt.Fprintln(os.Stderr, "bad replay file:", err)
			os.Exit(2)
		}
		only = &doc.First.Replay
		specs = []msggen.Spec{only.Spec}
		fmt.Printf("replaying %+v\n", *only)
	}

	var cases, transitions, nontrivial, captured, jsonBytes, nonUTF8, violCases, fieldChecks int64
	var mu sync.Mutex
	distinctOutcomes := map[string]int64{}

	type pendingViolation struct {
		sig, desc string
		rc        replayCase
	}
	pending := make([][]pendingViolation, len(specs)) // reported in enumeration order (simplest message first)

	if only != nil && (only.Session != nil || only.History != nil || only.Mime != nil || only.Spell != nil) || !parts["single"] {
		specs = nil
	}
	lib.Parallel(len(specs), func(i int) {
		spec := specs[i]
		m := msggen.Build(spec)
		isReq := spec.Kind == "request"
		if i%1009 == 0 {
			rep.Sample(8, map[string]interface{}{"spec": spec.String(), "wire_bytes": len(m.Wire), "headers": len(m.Headers), "form_params": len(m.Form), "parts": len(m.Parts)})
		}
		for _, opt := range options {
			if only != nil && only.Option != "" && only.Option != opt.Name {
				continue
			}
			if opt.Extra && !extraOptionSizes[spec.Size] {
				continue
			}
			rc := replayCase{Spec: spec, Option: opt.Name}
			capture := opt.capture(m)
			atomic.AddInt64(&cases, 1)
			if len(m.Encoded) > 0 && capture && (spec.Framing == "chunked" || spec.Enc != "none" || !utf8.Valid(m.Encoded) || ctClass(m) != "") {
				atomic.AddInt64(&nontrivial, 1)
			}
			if capture && len(m.Encoded) > 0 {
				atomic.AddInt64(&captured, 1)
				if !utf8.Valid(m.Encoded) {
					atomic.AddInt64(&nonUTF8, 1)
				}
			}
			var fs []finding
			outcome := "ok"
			func() {
				defer func() {
					if r := recover(); r != nil {
						fs = append(fs, finding{fmt.Sprintf("har:%s:%s:panic", spec.Kind, bodyTag(m)), fmt.Sprintf("panic: %v", r)})
					}
				}()
				l := har.NewLogger()
				opt.apply(l)
				var req *http.Request
				var res *http.Response
				var err error
				if isReq {
					req, err = m.ParseRequest()
				} else {
					req = m.Request()
					res, err = m.ParseResponse(req)
				}
				if err != nil {
					panic(fmt.Sprintf("generator produced an unparseable message: %v", err))
				}
				_, remove, err := martian.TestContext(req, nil, nil)
				if err != nil {
					panic(err)
				}
				defer remove()
				lerr := l.ModifyRequest(req)
				atomic.AddInt64(&transitions, 1)
				if lerr == nil && !isReq {
					res.Request = req
					lerr = l.ModifyResponse(res)
					atomic.AddInt64(&transitions, 1)
				}
				if lerr != nil {
					outcome = "logger_error"
					fs = append(fs, finding{fmt.Sprintf("har:%s:%s:logger_error", spec.Kind, errorTag(m, capture)),
						fmt.Sprintf("the logger returned %q; the exchange is not (fully) logged", lerr)})
					return
				}
				h := l.Export()
				atomic.AddInt64(&transitions, 1)
				if len(h.Log.Entries) != 1 {
					fs = append(fs, finding{"har:export:entry_count", fmt.Sprintf("%d entries after one exchange", len(h.Log.Entries))})
					return
				}
				e := h.Log.Entries[0]
				if isReq {
					fs = append(fs, checkRequest(m, capture, e.Request)...)
				} else {
					fs = append(fs, checkResponse(m, capture, e.Response)...)
				}
				atomic.AddInt64(&fieldChecks, 1)

				// JSON as produced by the export handler
				rw := httptest.NewRecorder()
				har.NewExportHandler(l).ServeHTTP(rw, httptest.NewRequest("GET", "/logs", nil))
				atomic.AddInt64(&transitions, 1)
				atomic.AddInt64(&jsonBytes, int64(rw.Body.Len()))
				var back har.HAR
				if rw.Code != 200 {
					fs = append(fs, finding{"har:json_roundtrip:export_handler_status", fmt.Sprintf("export handler answered %d", rw.Code)})
					return
				}
				if !json.Valid(rw.Body.Bytes()) {
					fs = append(fs, finding{"har:json_roundtrip:" + spec.Kind + ":invalid_json", fmt.Sprintf("export handler wrote invalid JSON (%d bytes) %s", rw.Body.Len(), clip(rw.Body.String()))})
					return
				}
				if err := json.Unmarshal(rw.Body.Bytes(), &back); err != nil {
					fs = append(fs, finding{"har:json_roundtrip:" + spec.Kind + ":unmarshal_error", fmt.Sprintf("cannot parse the exported JSON back: %v", err)})
					return
				}
				if back.Log == nil || len(back.Log.Entries) != 1 {
					fs = append(fs, finding{"har:json_roundtrip:" + spec.Kind + ":entry_lost", "parsed JSON does not hold one entry"})
					return
				}
				fs = append(fs, roundTrip(m, spec.Kind, e, back.Log.Entries[0])...)
			}()
			if len(fs) > 0 {
				atomic.AddInt64(&violCases, 1)
				if outcome == "ok" {
					outcome = "mismatch"
				}
			}
			mu.Lock()
			distinctOutcomes[outcome]++
			mu.Unlock()
			for _, f := range fs {
				pending[i] = append(pending[i], pendingViolation{f.sig, fmt.Sprintf("%s, option %s: %s", spec, opt.Name, f.desc), rc})
			}
		}
	})
	for _, pv := range pending {
		for _, v := range pv {
			rep.Violate(v.sig, v.desc, v.rc)
		}
	}

	if parts["session"] && (only == nil || only.Session != nil && only.History == nil && only.Mime == nil && only.Spell == nil) {
		sc := runSessionFamily(rep, tier, only)
		for k, v := range sc {
			rep.Coverage[k] = v
		}
		cases += sc["session_cases"]
		transitions += sc["session_transitions"]
		nontrivial += sc["session_cases_with_reused_capacity"]
		fieldChecks += sc["session_entries_compared_with_model"]
		jsonBytes += sc["session_json_bytes"]
	}

	if parts["history"] && (only == nil || only.History != nil) {
		hc := runHistoryFamily(rep, tier, only)
		for k, v := range hc {
			rep.Coverage[k] = v
		}
		cases += hc["history_cases"]
		transitions += hc["history_transitions"]
		nontrivial += hc["history_cases_map_and_fields_disagree"]
		fieldChecks += hc["history_cases_judged"]
	}

	if parts["mime"] && (only == nil || only.Mime != nil) {
		mc := runMimeFamily(rep, tier, only)
		for k, v := range mc {
			rep.Coverage[k] = v
		}
		cases += mc["mime_cases"]
		transitions += mc["mime_transitions"]
		nontrivial += mc["mime_cases_deviating_from_writer_spelling_captured"]
		fieldChecks += mc["mime_cases_origin_parse_equals_ground_truth"]
		jsonBytes += mc["mime_json_bytes"]
	}

	if parts["spelling"] && (only == nil || only.Spell != nil) {
		sc := runSpellingFamily(rep, tier, only)
		for k, v := range sc {
			rep.Coverage[k] = v
		}
		cases += sc["spelling_cases"]
		transitions += sc["spelling_transitions"]
		nontrivial += sc["spelling_cases_nondefault_url_or_repeated_name"]
		fieldChecks += sc["spelling_cases"] - sc["spelling_violating_cases"]
		jsonBytes += sc["spelling_json_bytes"]
	}

	rep.Coverage["states"] = cases
	rep.Coverage["transitions"] = transitions
	rep.Coverage["traces_validated_against_impl"] = cases
	rep.Coverage["evaluations"] = cases
	rep.Coverage["distinct_nontrivial"] = nontrivial
	rep.Coverage["messages"] = len(specs)
	rep.Coverage["messages_body_space"] = nBody
	rep.Coverage["messages_header_space"] = nHeader
	rep.Coverage["messages_edge_space"] = len(specs) - nBody - nHeader
	rep.Coverage["capture_options"] = len(options)
	rep.Coverage["cases_with_captured_nonempty_body"] = captured
	rep.Coverage["cases_with_captured_non_utf8_body"] = nonUTF8
	rep.Coverage["entries_compared_with_model"] = fieldChecks
	rep.Coverage["exported_json_bytes"] = jsonBytes
	rep.Coverage["violating_cases"] = violCases
	rep.Coverage["distinct_outcomes"] = distinctOutcomes
	rep.Coverage["exhaustive"] = only == nil
	rep.Coverage["rule"] = "cases = every message of msggen.BodySpace ∪ HeaderSpace ∪ EdgeSpace x capture option {all, none, opt-in, opt-out} (every message) and x 10 further option settings (post-data and body options set independently, option histories where the last setting wins, empty / one-element / upper-case prefix lists) on the messages of 6 body-size classes; states = distinct (message, option) pairs; a case is non-trivial when the body is non-empty, the option captures it, and the model has to do more than copy bytes: the message is chunked, content-coded, not valid UTF-8, or a form/multipart body that is parsed into parameters. Session family: every sequence of K full exchanges (request + its own response) over a pool of 8 exchanges x response arrival order {sequential, after all requests in reverse order, after all requests in request order} x options {all, opt-in}, plus the length-1 baseline, logged through one logger; all entries are compared with the model of their own exchange only after the last exchange was logged, then the export handler's JSON and the reset handler's JSON (?return=true) are parsed back and compared entry by entry and the log must be empty; a session is non-trivial when a later captured response body fits into the memory of an earlier one. History family: every base message of a pool of 19 requests and 16 responses (framing x size x coding/type) x every sequence of up to L modifications that ran before the logger (body replaced with the length field updated / declared unknown, framing changed to chunked / to Content-Length, Host field rewritten, Content-Length / Transfer-Encoding / Host written into or deleted from the header map, martian's own body.Modifier) x options {all, none}; after the history the message is logged, then serialised with req.Write / res.Write and taken apart by msggen's parser: Host, Content-Length, Transfer-Encoding and the Trailer announcement of the HAR header list must be what the peer receives, everything else is compared with the reference model of the history; a history case is non-trivial when header map and fields disagree about one of the three names at logging time. MIME spelling family: every multipart/form-data request of the product part list (8) x preamble (6) x epilogue (5) x transport padding after delimiters (4) x boundary / Content-Type spelling (9) x part header spelling (8) (quick: the cases with at most two dimensions deviating from what mime/multipart.Writer writes - every value, every pair; thorough: the full product; bodies that coincide once) x framing {Content-Length, chunked} x options {all, none}; the bytes left in the request body after logging are parsed by an origin (net/http ParseMultipartForm) and must yield exactly the projection of the ground-truth part list (verified for every case, a disagreement aborts the run), the logged params must equal that list in order; a case is non-trivial when the option captures and at least one dimension deviates from the Writer spelling. URL / cookie spelling family: every bodiless GET of the product request-target form (absolute-form, origin-form on a plain connection, origin-form inside a MITM'd tunnel) x authority (11) x path spelling (17) x query spelling (11) minus the combinations that are not valid requests (origin-form with userinfo or an empty path); every request whose cookie pairs are a sequence of up to N letters of {sid=root, sid=app, theme=dark, SID=upper} x every split of the sequence into consecutive Cookie header lines; every 200 response whose Set-Cookie lines are a sequence of up to N letters of six cookies, five of them named sid with different value / Path / Domain / flags / Expires; the logged URL must be the request-target of the wire (absolute-form) or scheme://Host-header + request-target (origin-form) byte for byte, the cookie list one entry per pair / line in message order; a case is non-trivial when the URL deviates from the older families' spelling or a cookie name occurs more than once"
	rep.Coverage["bounds"] = fmt.Sprintf("tier %s: body space = {request POST, response 200} x sizes %v (quick: the classes above 4097 with 3 of the 5 chunk lists) x {Content-Length, close (responses), chunked x chunk lists x trailers 0..2} x content codings %v x content types requests %v / responses %v (form sets: 1 pair, 4 pairs with a repeated name / reserved characters / empty value, non-UTF-8 and non-ASCII pairs; multipart sets: 1 field, field + text file, binary file + field; a pad parameter brings the body to the requested size); header space = requests {GET,POST,PUT} x HTTP/1.1,1.0 x query pool %q x Cookie pool %q x repeated/empty header pool, responses {200,201,301,302,404,204,304} x versions x Set-Cookie pool %q x header pool x Location pool %q; opt-in list %v, opt-out list %v; edge space = request methods {GET,DELETE,PATCH,OPTIONS,PUT} with a body, content types {absent, unparseable media type, form with parameters / in upper case / with a non-UTF-8 parameter name / that does not parse, multipart with quoted boundary / without boundary / with an empty and a typed part} x framings x {identity, gzip, zlib deflate, unknown coding}, non-UTF-8 bytes in a query value and in a header value, 206 x codings x framings, 304 and answers to HEAD {200,404,301} with Content-Length / chunked framing headers and no body, Location on {200,201,404}, query strings with '=' inside values and names / empty names / flags, requests whose parsed form has Transfer-Encoding chunked AND a content length, or a body of unknown length (neither); session length K = 3 (quick) / 4 (thorough); history length L <= 2 (quick) / 3 (thorough) over an alphabet of 12 (requests) / 10 (responses) modifications, HTTP/1.1 messages of methods/statuses that allow a body; MIME spelling family: part lists {field, field+text file, empty field+typed field, binary file+field, repeated name incl. a file, values with CR/LF/CRLF and delimiter look-alikes, 5000-byte field, empty file+field}, preambles {none, CRLF, text line, three lines, lines beginning with dashes, 5000 bytes}, epilogues {CRLF, nothing after the close delimiter, text, lines, text that looks like another part}, padding {none, SP after inner delimiters, SP after close delimiter, SP/TAB after all}, boundaries {token, quoted, leading dashes, RFC 2046 special characters, with a space, 70 characters, 1 character, attribute in mixed case after another parameter, media type in mixed case without space}, part headers {as Writer, lower-case names, unquoted parameters, extra headers, filename before name, folded, quoted-printable, empty part without body}, chunk lists {1+rest; thorough also 7-byte chunks}; URL / cookie spelling family: authorities {example.com, with port, mixed case, IPv4:port, [::1], [2001:db8::1]:8443, and with userinfo user@ / user:pass@ / user:@ / escaped @ : / in userinfo / userinfo + IPv6}, paths {/p/a, empty, /, %%2F %%3F %%23 %%25 in four combinations, lower-case hex, escaped unreserved, %%20 and escaped UTF-8, escaped non-UTF-8 octets, ;,= and all sub-delims : @ literally, //, ./.., leading //, trailing /}, queries {none, bare ?, a=1, empty values and flags, escaped = & / ? # %%, + and %%20, literal ? / : @, &&, =, trailing &}, Cookie sequences up to 4 pairs (thorough 6), Set-Cookie sequences up to 4 lines (thorough 5)",
		tier, sizesFor(tier), msggen.Encodings, msggen.RequestCTs, msggen.ResponseCTs, msggen.QueryRaw, msggen.ReqCookieHeaders, msggen.ResCookieHeaders, msggen.Locations, optIn, optOut)
	rep.Assumptions = []string{
		"the reference values are the generator's own lists (header lines, query pairs, cookies, form pairs, multipart parts, payload before/after content coding); martian and net/http parsing results are never used as expectations",
		"the header list of the message is every header line on the wire (so a Trailer announcement is a header); order is not compared (HAR builds lists from maps), multiplicity is",
		"query and form parameters are compared per name in order; cookies and multipart parts in message order",
		"post data of form and multipart bodies: parameters must equal the ground truth, text may be empty or the raw body; for a content-coded form/multipart body either the parameters or the raw coded text is accepted",
		"mimeType may be the full Content-Type value or its media type, case-insensitively",
		"content types match capture prefixes case-insensitively (media types are case-insensitive)",
		"response content of a body under an unknown coding (br) is the body as received; for deliberately corrupt gzip only the existence of the entry and its metadata are required",
		"when capture is disabled only the absence of body text/parameters is required (sizes are not compared)",
		"206 Partial Content: the body is a fragment, so the decoded fragment or the fragment as received is accepted; corrupt gzip: the body as received (without chunk framing) or any decodable prefix is accepted",
		"a response to HEAD and a 304 have no body whatever their framing headers say: the content must be empty; a Location header on a response outside 3xx is not a redirect URL",
		"a form body that does not parse (invalid escape) and a multipart body without a boundary parameter have no parameter list: the post data text must be the body",
		"requests are in absolute-form as a proxy receives them",
		"history family: the message of a modified exchange is the one the peer receives (req.Write / res.Write, what martian does after the modifiers ran); a header list may also show the length field of a message that is chunked AND has a length, may show or omit a zero Content-Length (net/http decides by method, status and body reader whether a zero length is announced), and need not show the chunked coding net/http picks at send time for a body of unknown length; a value that is neither sent nor the value of the field is never accepted",
		"history family: messages net/http refuses to serialise are counted (history_cases_unsendable) and not judged",
		"MIME spelling family: the origin is net/http's ParseMultipartForm (standard library, not martian code) run on the bytes read from the request body after the logger ran; its result is used to validate the generator's ground truth for every case, the verdict is taken against the ground truth (which also fixes order across names and the content type of value parts, which the origin's maps do not keep); parts without a name, file names with directories and bodies without any part are not generated (origins skip / rewrite them, the expected parameter would be an opinion)",
		"URL / cookie spelling family: only RFC 3986-valid spellings are generated; the URL of an origin-form request is scheme://Host-header-value + request-target, with the scheme and host filled in by the harness exactly as martian's proxy does before the modifiers run (URL.Scheme = http, or https inside a secure session; URL.Host = Host header when the target names none); userinfo is generated in its normalised spelling only (upper-case hex digits, only the necessary escapes): whether a logger may normalise equivalent spellings of userinfo is not judged; cookie values are plain tokens (no quoting), compared in message order",
	}
	rep.Finish()
}

var (
	quickSmallSizes = []int{0, 1, 2, 511, 512, 513, 4095, 4096, 4097}
	quickLargeSizes = []int{32769, 65537}
)

func sizesFor(tier string) []int {
	if tier == "thorough" {
		return msggen.SizesThorough
	}
	return append(append([]int{}, quickSmallSizes...), quickLargeSizes...)
}
