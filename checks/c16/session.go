package main

// Session family. The statement speaks about "every logged exchange" and about "serialising the log": a log
// holds many entries, and an entry must still describe its own exchange after later exchanges were logged
// (buffers, maps and lists that survive between exchanges must not be shared between entries). Every sequence
// of K exchanges over a pool of full exchanges (a request with its own response, bodies of different sizes,
// framings, codings and types, a HEAD exchange, a redirect, a bodiless 204) is logged through ONE har.Logger,
// with the responses arriving right after their requests, or after all requests in reverse order, or after all
// requests in request order. Only
// then the log is exported and every entry is compared with the model of its own exchange (request side and
// response side), the export handler's JSON is parsed back and compared entry by entry, the reset handler's
// JSON (POST ?return=true, the other way a log is serialised) likewise, and the log must be empty afterwards.

import (
	"encoding/json"
	"fmt"
	"net/http"
	"net/http/httptest"
	"strings"
	"sync/atomic"

	"github.com/google/martian/v3"
	"github.com/google/martian/v3/har"

	"verif/checks/msggen"
	"verif/lib"
)

type sessionID struct {
	Exchanges []int  `json:"exchanges"` // indices into the exchange pool, in arrival order of the requests
	Order     string `json:"order"`     // "sequential" | "responses-reversed" | "responses-in-order" (the latter two: after all requests)
}

type exchange struct{ Req, Res msggen.Spec }

func exchangePool() []exchange {
	req := func(method string, size int, framing, chunking string, trailers int, enc, ct string) msggen.Spec {
		s := msggen.Spec{Space: "session", Kind: "request", Method: method, Version: "1.1", Size: size, Framing: framing, Chunking: chunking, Trailers: trailers, Enc: enc, CT: ct, Query: 2, Cookies: 2}
		return s
	}
	res := func(status, size int, framing, chunking string, enc, ct string) msggen.Spec {
		return msggen.Spec{Space: "session", Kind: "response", Status: status, Version: "1.1", Size: size, Framing: framing, Chunking: chunking, Enc: enc, CT: ct, Cookies: 3}
	}
	head := res(200, 300, "cl", "", "gzip", "text")
	head.ForMethod = "HEAD"
	notFound := res(404, 5, "cl", "", "none", "text")
	notFound.Extra = 2
	return []exchange{
		{req("POST", 300, "cl", "", 0, "none", "form:P2"), res(200, 4096, "chunked", "fixed1000", "gzip", "json")},
		{req("POST", 4096, "chunked", "first1", 0, "none", "binary"), res(200, 65537, "cl", "", "none", "binary")},
		{req("GET", 0, "none", "", 0, "none", "none"), res(301, 5, "cl", "", "none", "text")},
		{req("POST", 513, "cl", "", 0, "none", "multipart:M3"), res(200, 512, "close", "", "deflate", "text")},
		{req("PUT", 300, "chunked", "whole", 1, "gzip", "json"), notFound},
		{req("POST", 65537, "cl", "", 0, "none", "text"), res(200, 65537, "cl", "", "gzip-multi", "text")},
		{req("HEAD", 0, "none", "", 0, "none", "none"), head},
		{req("POST", 1, "chunked", "whole", 1, "none", "json"), res(204, 0, "none", "", "none", "none")},
	}
}

func runSessionFamily(rep *lib.Report, tier string, only *replayCase) map[string]int64 {
	pool := exchangePool()
	k := 3
	if tier == "thorough" {
		k = 4
	}
	type session struct {
		id  sessionID
		opt option
	}
	var sessions []session
	sessionOptions := []option{options[0], options[2]} // all, optin
	if only != nil {
		for _, o := range options {
			if o.Name == only.Option {
				sessions = append(sessions, session{*only.Session, o})
			}
		}
	} else {
		for l := 1; l <= k; l++ {
			if l > 1 && l < k {
				continue // length 1 (the single-exchange baseline) and the full length
			}
			dims := make([]int, l)
			for i := range dims {
				dims[i] = len(pool)
			}
			lib.Product(dims, func(idx []int) {
				for _, order := range []string{"sequential", "responses-reversed", "responses-in-order"} {
					if l == 1 && order != "sequential" {
						continue
					}
					for _, o := range sessionOptions {
						sessions = append(sessions, session{sessionID{append([]int{}, idx...), order}, o})
					}
				}
			})
		}
	}

	var cases, transitions, entries, reused, jsonBytes, exchanges int64
	type pv struct {
		sig, desc string
		rc        replayCase
	}
	pending := make([][]pv, len(sessions))
	lib.Parallel(len(sessions), func(si int) {
		ss := sessions[si]
		rc := replayCase{Option: ss.opt.Name, Session: &ss.id}
		violate := func(sig, desc string) {
			pending[si] = append(pending[si], pv{"har:session:" + strings.TrimPrefix(sig, "har:"), fmt.Sprintf("session %v (%s), option %s: %s", ss.id.Exchanges, ss.id.Order, ss.opt.Name, desc), rc})
		}
		defer func() {
			if r := recover(); r != nil {
				violate("har:panic", fmt.Sprintf("panic: %v", r))
			}
		}()
		atomic.AddInt64(&cases, 1)
		l := har.NewLogger()
		ss.opt.apply(l)
		type live struct {
			reqM, resM *msggen.Msg
			req        *http.Request
			id         string
		}
		lives := make([]*live, len(ss.id.Exchanges))
		var removes []func()
		defer func() {
			for _, r := range removes {
				r()
			}
		}()
		failed := false
		logResponse := func(lv *live) {
			res, err := lv.resM.ParseResponse(lv.req)
			if err != nil {
				panic(fmt.Sprintf("generator produced an unparseable response %s: %v", lv.resM.Spec, err))
			}
			res.Request = lv.req
			atomic.AddInt64(&transitions, 1)
			if err := l.ModifyResponse(res); err != nil {
				violate("har:response:logger_error", fmt.Sprintf("response %s: the logger returned %q", lv.resM.Spec, err))
				failed = true
			}
		}
		maxCaptured, fits := -1, false
		for i, x := range ss.id.Exchanges {
			lv := &live{reqM: msggen.Build(pool[x].Req), resM: msggen.Build(pool[x].Res)}
			lives[i] = lv
			req, err := lv.reqM.ParseRequest()
			if err != nil {
				panic(fmt.Sprintf("generator produced an unparseable request %s: %v", lv.reqM.Spec, err))
			}
			ctx, remove, err := martian.TestContext(req, nil, nil)
			if err != nil {
				panic(err)
			}
			removes = append(removes, remove)
			lv.req, lv.id = req, ctx.ID()
			atomic.AddInt64(&transitions, 1)
			atomic.AddInt64(&exchanges, 1)
			if err := l.ModifyRequest(req); err != nil {
				violate("har:request:logger_error", fmt.Sprintf("request %s: the logger returned %q", lv.reqM.Spec, err))
				failed = true
			}
			if ss.id.Order == "sequential" {
				logResponse(lv)
			}
			if n := len(lv.resM.Payload); ss.opt.capture(lv.resM) && n > 0 {
				if n <= maxCaptured && !fits {
					fits = true // a later captured body fits into the memory of an earlier one
					atomic.AddInt64(&reused, 1)
				}
				if n > maxCaptured {
					maxCaptured = n
				}
			}
		}
		switch ss.id.Order {
		case "responses-reversed":
			for i := len(lives) - 1; i >= 0; i-- {
				logResponse(lives[i])
			}
		case "responses-in-order":
			for _, lv := range lives {
				logResponse(lv)
			}
		}
		if failed {
			return
		}

		compare := func(what string, es []*har.Entry) bool {
			if len(es) != len(lives) {
				violate("har:"+what+":entry_count", fmt.Sprintf("%d entries after %d exchanges", len(es), len(lives)))
				return false
			}
			for i, e := range es {
				if e == nil || e.ID != lives[i].id {
					violate("har:"+what+":entry_order", fmt.Sprintf("entry %d is not the exchange that arrived as number %d", i, i))
					return false
				}
			}
			return true
		}
		h := l.Export()
		atomic.AddInt64(&transitions, 1)
		if !compare("export", h.Log.Entries) {
			return
		}
		complete := true
		for i, e := range h.Log.Entries {
			lv := lives[i]
			complete = complete && e.Response != nil
			for _, f := range checkRequest(lv.reqM, ss.opt.capture(lv.reqM), e.Request) {
				violate(f.sig, fmt.Sprintf("entry %d (%s): %s", i, lv.reqM.Spec, f.desc))
			}
			for _, f := range checkResponse(lv.resM, ss.opt.capture(lv.resM), e.Response) {
				violate(f.sig, fmt.Sprintf("entry %d (%s): %s", i, lv.resM.Spec, f.desc))
			}
			atomic.AddInt64(&entries, 1)
		}
		parseBack := func(what string, rw *httptest.ResponseRecorder) {
			atomic.AddInt64(&transitions, 1)
			atomic.AddInt64(&jsonBytes, int64(rw.Body.Len()))
			if rw.Code != 200 {
				violate("har:json_roundtrip:"+what+"_status", fmt.Sprintf("%s answered %d", what, rw.Code))
				return
			}
			var back har.HAR
			if err := json.Unmarshal(rw.Body.Bytes(), &back); err != nil {
				violate("har:json_roundtrip:"+what+":unmarshal_error", fmt.Sprintf("cannot parse the JSON of the %s back: %v", what, err))
				return
			}
			if back.Log == nil || !compare(what+"_json", back.Log.Entries) {
				return
			}
			for i, e := range h.Log.Entries {
				for _, kind := range []string{"request", "response"} {
					m := lives[i].reqM
					if kind == "response" {
						m = lives[i].resM
					}
					for _, f := range roundTrip(m, kind, e, back.Log.Entries[i]) {
						violate(strings.Replace(f.sig, "har:json_roundtrip:", "har:json_roundtrip("+what+"):", 1), fmt.Sprintf("entry %d (%s): %s", i, m.Spec, f.desc))
					}
				}
			}
		}
		rw := httptest.NewRecorder()
		har.NewExportHandler(l).ServeHTTP(rw, httptest.NewRequest("GET", "/logs", nil))
		parseBack("export_handler", rw)
		if !complete {
			return // (already reported) the reset handler returns completed entries only
		}
		rw = httptest.NewRecorder()
		har.NewResetHandler(l).ServeHTTP(rw, httptest.NewRequest("POST", "/logs/reset?return=true", nil))
		parseBack("reset_handler", rw)
		if n := len(l.Export().Log.Entries); n != 0 {
			violate("har:reset_handler:entries_left", fmt.Sprintf("%d entries left after a reset that returned the completed entries", n))
		}
	})
	for _, p := range pending {
		for _, v := range p {
			rep.Violate(v.sig, v.desc, v.rc)
		}
	}
	return map[string]int64{
		"session_cases":                       cases,
		"session_exchange_pool":               int64(len(pool)),
		"session_length":                      int64(k),
		"session_exchanges_logged":            exchanges,
		"session_transitions":                 transitions,
		"session_entries_compared_with_model": entries,
		"session_cases_with_reused_capacity":  reused,
		"session_json_bytes":                  jsonBytes,
	}
}
