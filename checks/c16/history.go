package main

// History family (round 6). The statement quantifies over "every logged exchange": the message a logger sees is
// not always the message that was parsed from the wire - modifiers that run before the logger replace the body,
// re-target the request, change the framing. net/http keeps Host, Content-Length and Transfer-Encoding in FIELDS
// of the message (Host, ContentLength, TransferEncoding) and serialises the message from those fields, while a
// message read off the wire still carries its original Content-Length in the header MAP, and a careless
// modifier may write any of the three names into the map. After such a history map and fields disagree, and
// the header list of the HAR entry has to show what the message really has: what the peer receives.
//
// Enumerated: every base message of a small pool (requests and responses x framing x size x coding/type) x
// every sequence of up to L modifications from the alphabet below (L = 2 quick, 3 thorough; the empty
// history is the baseline) x capture option {all, none}. After the history the real har.Logger logs the
// message, the entry is exported, and then the message is serialised with req.Write / res.Write - exactly what
// martian does after the modifiers ran - and the bytes are taken apart by msggen's own parser.
//
// Oracle: for Host, Content-Length, Transfer-Encoding (and the Trailer announcement) the HAR header list must
// hold the values the peer receives; a value that is neither sent nor the value of the authoritative field is
// never acceptable. All other headers, the post data / content, method, URL, status ... are compared with the
// reference model of the history (ground truth of the base message with the modifications applied), through
// the same checkRequest / checkResponse as every other family. The reference model itself is cross-checked
// against the serialised bytes (other header lines, body), so a wrong model cannot pass silently.

import (
	"bytes"
	"fmt"
	"io"
	"net/http"
	"sort"
	"strconv"
	"strings"
	"sync"
	"sync/atomic"

	"github.com/google/martian/v3"
	"github.com/google/martian/v3/body"
	"github.com/google/martian/v3/har"

	"verif/checks/msggen"
	"verif/lib"
)

type historyID struct {
	Base int      `json:"base"` // index into historyBases()
	Ops  []string `json:"ops"`  // the modifications, in the order they ran before the logger
}

// judged header names: kept in fields of the message by net/http (Trailer: in the keys of the Trailer field).
var fieldBacked = []string{"Host", "Content-Length", "Transfer-Encoding", "Trailer"}

func isFieldBacked(name string) bool {
	for _, n := range fieldBacked {
		if n == name {
			return true
		}
	}
	return false
}

const (
	histOtherHost = "other.example:8080"
	histStaleHost = "stale.example"
	histStaleCL   = "999"
	histStaleTE   = "identity"
	histModBody   = "howdy"
	histModCT     = "text/plain"
)

// historyBases: HTTP/1.1 messages of statuses/methods that allow a body (the framing headers of bodiless
// responses are the subject of the edge space).
func historyBases() []msggen.Spec {
	var out []msggen.Spec
	type fr struct {
		framing, chunking string
		trailers          int
	}
	type body struct{ enc, ct string }
	for _, f := range []fr{{"cl", "", 0}, {"chunked", "first1", 0}, {"chunked", "whole", 1}} {
		for _, size := range []int{0, 300} {
			for _, b := range []body{{"none", "text"}, {"gzip", "json"}, {"none", "form:P2"}} {
				out = append(out, msggen.Spec{Space: "history", Kind: "request", Method: "POST", Version: "1.1", Size: size, Framing: f.framing, Chunking: f.chunking, Trailers: f.trailers, Enc: b.enc, CT: b.ct, Query: 1, Cookies: 1})
			}
		}
	}
	out = append(out, msggen.Spec{Space: "history", Kind: "request", Method: "GET", Version: "1.1", Framing: "none", Enc: "none", CT: "none", Query: 1, Cookies: 1})
	for _, f := range []fr{{"cl", "", 0}, {"chunked", "first1", 0}, {"chunked", "whole", 1}, {"close", "", 0}} {
		for _, size := range []int{0, 300} {
			for _, b := range []body{{"none", "text"}, {"gzip", "json"}} {
				out = append(out, msggen.Spec{Space: "history", Kind: "response", Status: 200, Version: "1.1", Size: size, Framing: f.framing, Chunking: f.chunking, Trailers: f.trailers, Enc: b.enc, CT: b.ct, Cookies: 1})
			}
		}
	}
	return out
}

// historyOps is the alphabet of modifications.
//
//	body=N                    the body is replaced by one of N bytes (same type and coding), ContentLength := its
//	                          length; header map and TransferEncoding untouched (what martian's body.Modifier does)
//	body=5,length-unknown     the body is replaced by a stream: ContentLength := -1
//	reframe:chunked           TransferEncoding := [chunked], ContentLength := -1
//	reframe:content-length    the body is buffered: TransferEncoding := nil, ContentLength := len, no trailers
//	host=other                (requests) Host field := other.example:8080
//	map:NAME=VALUE            a modifier writes NAME into the header map (net/http never sends map entries of
//	                          these names); map:del(Content-Length) removes the entry the parser left there
//	martian:body.Modifier     martian's own body.NewModifier("howdy", "text/plain")
func historyOps(kind string) []string {
	ops := []string{"body=0", "body=5", "body=700", "body=5,length-unknown", "reframe:chunked", "reframe:content-length",
		"map:Content-Length=" + histStaleCL, "map:Transfer-Encoding=" + histStaleTE, "map:del(Content-Length)", "martian:body.Modifier"}
	if kind == "request" {
		ops = append(ops, "host=other", "map:Host="+histStaleHost)
	}
	return ops
}

// liveMsg gives the operations one view of a request or a response.
type liveMsg struct {
	req *http.Request
	res *http.Response // nil for request cases
}

func (lm *liveMsg) header() http.Header {
	if lm.res != nil {
		return lm.res.Header
	}
	return lm.req.Header
}
func (lm *liveMsg) body() io.ReadCloser {
	if lm.res != nil {
		return lm.res.Body
	}
	return lm.req.Body
}
func (lm *liveMsg) setBody(b []byte) {
	rc := io.NopCloser(bytes.NewReader(b))
	if lm.res != nil {
		lm.res.Body = rc
	} else {
		lm.req.Body = rc
	}
}
func (lm *liveMsg) cl() int64 {
	if lm.res != nil {
		return lm.res.ContentLength
	}
	return lm.req.ContentLength
}
func (lm *liveMsg) setCL(n int64) {
	if lm.res != nil {
		lm.res.ContentLength = n
	} else {
		lm.req.ContentLength = n
	}
}
func (lm *liveMsg) te() []string {
	if lm.res != nil {
		return lm.res.TransferEncoding
	}
	return lm.req.TransferEncoding
}
func (lm *liveMsg) setTE(te []string) {
	if lm.res != nil {
		lm.res.TransferEncoding = te
	} else {
		lm.req.TransferEncoding = te
	}
}
func (lm *liveMsg) trailer() http.Header {
	if lm.res != nil {
		return lm.res.Trailer
	}
	return lm.req.Trailer
}
func (lm *liveMsg) clearTrailer() {
	if lm.res != nil {
		lm.res.Trailer = nil
	} else {
		lm.req.Trailer = nil
	}
}
func (lm *liveMsg) write(w io.Writer) error {
	if lm.res != nil {
		return lm.res.Write(w)
	}
	return lm.req.Write(w)
}

func isChunked(te []string) bool { return len(te) > 0 && te[len(te)-1] == "chunked" }

// applyHistoryOp performs one modification on the live message and on the reference model (a private copy of
// the base message's ground truth).
func applyHistoryOp(op string, lm *liveMsg, model *msggen.Msg) {
	replaceModelBody := func(n int) []byte {
		if n == 0 {
			model.Payload, model.Encoded, model.Form, model.Parts = []byte{}, []byte{}, nil, nil
			model.Decodable, model.Corrupt = true, false
			return model.Encoded
		}
		ds := model.Spec
		ds.Size, ds.Framing, ds.Chunking, ds.Trailers, ds.Adjust = n, "cl", "", 0, ""
		d := msggen.Build(ds)
		model.Payload, model.Encoded, model.Form, model.Parts = d.Payload, d.Encoded, d.Form, d.Parts
		model.Decodable, model.Corrupt = d.Decodable, d.Corrupt
		return d.Encoded
	}
	switch {
	case op == "body=5,length-unknown":
		lm.body().Close()
		lm.setBody(replaceModelBody(5))
		lm.setCL(-1)
	case strings.HasPrefix(op, "body="):
		n, err := strconv.Atoi(strings.TrimPrefix(op, "body="))
		if err != nil {
			panic("bad op " + op)
		}
		lm.body().Close()
		b := replaceModelBody(n)
		lm.setBody(b)
		lm.setCL(int64(len(b)))
	case op == "reframe:chunked":
		lm.setTE([]string{"chunked"})
		lm.setCL(-1)
	case op == "reframe:content-length":
		b, err := io.ReadAll(lm.body())
		if err != nil {
			panic(fmt.Sprintf("reading the body for %s: %v", op, err))
		}
		lm.body().Close()
		lm.setBody(b)
		lm.setTE(nil)
		lm.setCL(int64(len(b)))
		lm.clearTrailer()
	case op == "host=other":
		lm.req.Host = histOtherHost
	case op == "map:del(Content-Length)":
		lm.header().Del("Content-Length")
	case strings.HasPrefix(op, "map:"):
		kv := strings.SplitN(strings.TrimPrefix(op, "map:"), "=", 2)
		lm.header().Set(kv[0], kv[1])
	case op == "martian:body.Modifier":
		mod := body.NewModifier([]byte(histModBody), histModCT)
		var err error
		if lm.res != nil {
			err = mod.ModifyResponse(lm.res)
		} else {
			err = mod.ModifyRequest(lm.req)
		}
		if err != nil {
			panic(fmt.Sprintf("body.Modifier: %v", err))
		}
		// model: the body is the new one, Content-Type is replaced (or added), Content-Encoding removed
		model.Payload, model.Encoded, model.Form, model.Parts = []byte(histModBody), []byte(histModBody), nil, nil
		model.Decodable, model.Corrupt = true, false
		model.Spec.Enc, model.Spec.CT = "none", "text"
		model.ContentType, model.DeclaredCE = histModCT, ""
		var hs []msggen.KV
		seenCT := false
		for _, kv := range model.Headers {
			switch kv.Name {
			case "Content-Encoding":
				continue
			case "Content-Type":
				kv.Value, seenCT = histModCT, true
			}
			hs = append(hs, kv)
		}
		if !seenCT {
			hs = append(hs, msggen.KV{Name: "Content-Type", Value: histModCT})
		}
		model.Headers = hs
	default:
		panic("unknown op " + op)
	}
}

func clClass(n int64) string {
	switch {
	case n > 0:
		return "field>0"
	case n == 0:
		return "field=0"
	}
	return "field<0"
}

func valuesOf(lines []msggen.KV, name string) []string {
	var out []string
	for _, kv := range lines {
		if kv.Name == name {
			v := kv.Value
			if name == "Trailer" {
				v = strings.TrimPrefix(normHeader(name, v), "Trailer: ")
			}
			out = append(out, v)
		}
	}
	sort.Strings(out)
	return out
}

func sameStrings(a, b []string) bool {
	if len(a) != len(b) {
		return false
	}
	for i := range a {
		if a[i] != b[i] {
			return false
		}
	}
	return true
}

func wireLines(lines []string) []msggen.KV {
	var out []msggen.KV
	for _, l := range lines {
		i := strings.IndexByte(l, ':')
		if i < 0 {
			out = append(out, msggen.KV{Name: l})
			continue
		}
		out = append(out, msggen.KV{Name: l[:i], Value: strings.TrimPrefix(l[i+1:], " ")})
	}
	return out
}

type historyCaseStats struct {
	unsendable, disagree bool
	state                string
	transitions          int64
}

// runHistoryCase executes one (base, history, option) case and returns the findings (signatures without the
// "har:history:" prefix handling: complete signatures).
func runHistoryCase(base msggen.Spec, ops []string, opt option) (fs []finding, st historyCaseStats) {
	add := func(sig, desc string) { fs = append(fs, finding{sig, desc}) }
	kind := base.Kind
	m := msggen.Build(base)
	model := *m
	model.Headers = append([]msggen.KV(nil), m.Headers...)

	lm := &liveMsg{}
	var err error
	if kind == "request" {
		lm.req, err = m.ParseRequest()
	} else {
		lm.req = m.Request()
		lm.res, err = m.ParseResponse(lm.req)
		if err == nil {
			lm.res.Request = lm.req
		}
	}
	if err != nil {
		panic(fmt.Sprintf("generator produced an unparseable message: %v", err))
	}
	for _, op := range ops {
		applyHistoryOp(op, lm, &model)
		st.transitions++
	}

	// the state the logger sees
	fieldCL, fieldTE := lm.cl(), append([]string(nil), lm.te()...)
	fieldHost := lm.req.Host
	mapCL, mapTE, mapHost := lm.header()["Content-Length"], lm.header()["Transfer-Encoding"], lm.header()["Host"]
	teClass := "field=unset"
	if isChunked(fieldTE) {
		teClass = "field=chunked"
	} else if len(fieldTE) > 0 {
		teClass = "field=other"
	}
	trClass := "field=unset"
	if len(lm.trailer()) > 0 {
		trClass = "field=set"
	}
	fieldCLString := ""
	if fieldCL >= 0 {
		fieldCLString = strconv.FormatInt(fieldCL, 10)
	}
	st.disagree = (mapCL != nil && strings.Join(mapCL, ",") != fieldCLString) ||
		(mapTE != nil && strings.Join(mapTE, ",") != strings.Join(fieldTE, ",")) ||
		(kind == "request" && mapHost != nil && strings.Join(mapHost, ",") != fieldHost)
	st.state = fmt.Sprintf("%s|cl:%s map:%v|te:%s map:%v|host map:%v|trailer:%s", kind, clClass(fieldCL), mapCL != nil, teClass, mapTE != nil, mapHost != nil, trClass)

	// the logger runs (last modifier), then the message is sent
	l := har.NewLogger()
	opt.apply(l)
	_, remove, err := martian.TestContext(lm.req, nil, nil)
	if err != nil {
		panic(err)
	}
	defer remove()
	st.transitions++
	if kind == "request" {
		err = l.ModifyRequest(lm.req)
	} else {
		if err = l.ModifyRequest(lm.req); err == nil {
			st.transitions++
			err = l.ModifyResponse(lm.res)
		}
	}
	if err != nil {
		add(fmt.Sprintf("har:history:%s:logger_error", kind), fmt.Sprintf("the logger returned %q; the exchange is not (fully) logged", err))
		return
	}
	h := l.Export()
	st.transitions++
	if len(h.Log.Entries) != 1 {
		add("har:history:export:entry_count", fmt.Sprintf("%d entries after one exchange", len(h.Log.Entries)))
		return
	}
	e := h.Log.Entries[0]
	var got []har.Header
	if kind == "request" {
		if e.Request == nil {
			add("har:history:request:entry_missing", "no request in the entry")
			return
		}
		got = e.Request.Headers
	} else {
		if e.Response == nil {
			add("har:history:response:entry_missing", "no response in the entry")
			return
		}
		got = e.Response.Headers
	}

	// what the peer receives
	var wire bytes.Buffer
	st.transitions++
	if err := lm.write(&wire); err != nil {
		st.unsendable = true // net/http refuses to send this message: there is no peer to compare with
		return
	}
	ser := msggen.Decompose(wire.Bytes())
	if ser.ParseErr != "" {
		panic(fmt.Sprintf("the serialised message does not parse: %s", ser.ParseErr))
	}
	sent := wireLines(ser.Lines)

	// reference model vs serialised bytes: everything that is not field-backed (and not the serialiser's own
	// Connection header) and the body
	var modelOther, sentOther []string
	var modelOtherKV []msggen.KV
	for _, kv := range model.Headers {
		if !isFieldBacked(kv.Name) {
			modelOther = append(modelOther, normHeader(kv.Name, kv.Value))
			modelOtherKV = append(modelOtherKV, kv)
		}
	}
	for _, kv := range sent {
		if !isFieldBacked(kv.Name) && kv.Name != "Connection" {
			sentOther = append(sentOther, normHeader(kv.Name, kv.Value))
		}
	}
	sort.Strings(modelOther)
	sort.Strings(sentOther)
	if !sameStrings(modelOther, sentOther) {
		add(fmt.Sprintf("har:history:%s:sent_message_differs_from_model(headers)", kind), fmt.Sprintf("the peer receives %q, the reference model of the history has %q", sentOther, modelOther))
		return
	}
	if string(ser.Payload) != string(model.Encoded) {
		add(fmt.Sprintf("har:history:%s:sent_message_differs_from_model(body)", kind), fmt.Sprintf("the peer receives a body of %d bytes %s, the reference model of the history has %d bytes %s", len(ser.Payload), clip(string(ser.Payload)), len(model.Encoded), clip(string(model.Encoded))))
		return
	}

	// field-backed headers: the HAR list against what the peer receives
	var gotKV []msggen.KV
	for _, x := range got {
		gotKV = append(gotKV, msggen.KV{Name: x.Name, Value: x.Value})
	}
	for _, name := range fieldBacked {
		H, W := valuesOf(gotKV, name), valuesOf(sent, name)
		if sameStrings(H, W) {
			continue
		}
		class := ""
		switch name {
		case "Host":
			class = "field=set"
			if fieldHost == "" {
				class = "field=unset"
			}
		case "Content-Length":
			class = clClass(fieldCL)
			// the struct says chunked AND has a length: the peer receives the chunked message; a list that
			// also shows the length of the field describes the same message (reading of the te+cl edge cases)
			if isChunked(fieldTE) && fieldCL > 0 && len(W) == 0 && sameStrings(H, []string{fieldCLString}) {
				continue
			}
			// a zero length: whether "Content-Length: 0" goes on the wire is the serialiser's decision (method,
			// status, kind of body reader); the list may show it or not
			if fieldCL == 0 && (len(H) == 0 || sameStrings(H, []string{"0"})) && (len(W) == 0 || sameStrings(W, []string{"0"})) {
				continue
			}
		case "Transfer-Encoding":
			class = teClass
			// a body of unknown length without a transfer coding: the serialiser picks chunked when it sends
			// the message; the message the logger sees has no transfer coding yet
			if len(fieldTE) == 0 && len(H) == 0 && sameStrings(W, []string{"chunked"}) {
				continue
			}
		case "Trailer":
			class = trClass
		}
		// symptom: the list shows a value the peer does not receive (a stale entry), or it lacks a sent value
		symptom := "sent_value_not_listed"
		sentSet := map[string]bool{}
		for _, w := range W {
			sentSet[w] = true
		}
		for _, hv := range H {
			if !sentSet[hv] {
				symptom = "stale_value_listed"
			}
		}
		add(fmt.Sprintf("har:history:%s:%s(%s):%s", kind, name, class, symptom),
			fmt.Sprintf("the HAR header list has %s %q, the peer receives %q (at logging time: ContentLength field %d, TransferEncoding field %q, Host field %q, header map entries Content-Length %q Transfer-Encoding %q Host %q)",
				name, H, W, fieldCL, fieldTE, fieldHost, mapCL, mapTE, mapHost))
	}
	// all other headers: the HAR list against the reference model
	var gotOther []string
	for _, kv := range gotKV {
		if !isFieldBacked(kv.Name) {
			gotOther = append(gotOther, normHeader(kv.Name, kv.Value))
		}
	}
	if missing, extra := multisetDiff(modelOther, gotOther); len(missing)+len(extra) > 0 {
		var parts []string
		if len(missing) > 0 {
			parts = append(parts, "missing("+strings.Join(missing, ",")+")")
		}
		if len(extra) > 0 {
			parts = append(parts, "extra("+strings.Join(extra, ",")+")")
		}
		add(fmt.Sprintf("har:history:%s:headers:%s", kind, strings.Join(parts, "+")), fmt.Sprintf("header list %q, the message has %q", gotOther, modelOther))
	}

	// everything else of the entry: the usual model comparison against the message after the history
	mm := model
	mm.Headers = append(append([]msggen.KV(nil), modelOtherKV...), func() (fb []msggen.KV) {
		for _, kv := range sent {
			if isFieldBacked(kv.Name) {
				fb = append(fb, kv)
			}
		}
		return
	}()...)
	switch {
	case isChunked(fieldTE) && fieldCL > 0:
		mm.Spec.Framing, mm.Spec.Adjust = "chunked", "te+cl"
	case isChunked(fieldTE):
		mm.Spec.Framing = "chunked"
	case fieldCL < 0 && kind == "request":
		mm.Spec.Framing, mm.Spec.Adjust = "cl", "unknown-length"
	case fieldCL < 0:
		mm.Spec.Framing = "close"
	default:
		mm.Spec.Framing = "cl"
	}
	capture := opt.capture(&mm)
	var rest []finding
	if kind == "request" {
		rest = checkRequest(&mm, capture, e.Request)
	} else {
		rest = checkResponse(&mm, capture, e.Response)
	}
	for _, f := range rest {
		if strings.Contains(f.sig, ":headers:") {
			continue // judged above, name by name
		}
		add("har:history:"+strings.TrimPrefix(f.sig, "har:"), f.desc)
	}
	return
}

func runHistoryFamily(rep *lib.Report, tier string, only *replayCase) map[string]int64 {
	bases := historyBases()
	maxLen := 2
	if tier == "thorough" {
		maxLen = 3
	}
	histOptions := []option{options[0], options[1]} // all, none
	type hcase struct {
		id  historyID
		opt option
	}
	var cases []hcase
	if only != nil {
		for _, o := range options {
			if o.Name == only.Option {
				cases = append(cases, hcase{*only.History, o})
			}
		}
	} else {
		for bi, b := range bases {
			alphabet := historyOps(b.Kind)
			for l := 0; l <= maxLen; l++ {
				dims := make([]int, l)
				for i := range dims {
					dims[i] = len(alphabet)
				}
				emit := func(idx []int) {
					ops := make([]string, len(idx))
					for i, x := range idx {
						ops[i] = alphabet[x]
					}
					for _, o := range histOptions {
						cases = append(cases, hcase{historyID{bi, ops}, o})
					}
				}
				if l == 0 {
					emit(nil)
				} else {
					lib.Product(dims, emit)
				}
			}
		}
	}

	var nCases, transitions, unsendable, disagree, judged, violating int64
	var mu sync.Mutex
	states := map[string]int64{}
	type pv struct {
		sig, desc string
		rc        replayCase
	}
	pending := make([][]pv, len(cases))
	lib.Parallel(len(cases), func(ci int) {
		c := cases[ci]
		id := c.id
		rc := replayCase{Option: c.opt.Name, History: &id}
		if id.Base < 0 || id.Base >= len(bases) {
			return
		}
		base := bases[id.Base]
		rc.Spec = base
		atomic.AddInt64(&nCases, 1)
		var fs []finding
		var st historyCaseStats
		func() {
			defer func() {
				if r := recover(); r != nil {
					fs = append(fs, finding{fmt.Sprintf("har:history:%s:panic", base.Kind), fmt.Sprintf("panic: %v", r)})
				}
			}()
			fs, st = runHistoryCase(base, id.Ops, c.opt)
		}()
		atomic.AddInt64(&transitions, st.transitions)
		if st.unsendable {
			atomic.AddInt64(&unsendable, 1)
		} else {
			atomic.AddInt64(&judged, 1)
		}
		if st.disagree {
			atomic.AddInt64(&disagree, 1)
		}
		if len(fs) > 0 {
			atomic.AddInt64(&violating, 1)
		}
		if st.state != "" {
			mu.Lock()
			states[st.state]++
			mu.Unlock()
		}
		if ci%997 == 0 {
			rep.Sample(12, map[string]interface{}{"history_base": base.String(), "ops": id.Ops, "option": c.opt.Name, "state_at_logging": st.state})
		}
		for _, f := range fs {
			pending[ci] = append(pending[ci], pv{f.sig, fmt.Sprintf("%s after history %v, option %s: %s", base, id.Ops, c.opt.Name, f.desc), rc})
		}
	})
	for _, p := range pending {
		for _, v := range p {
			rep.Violate(v.sig, v.desc, v.rc)
		}
	}
	return map[string]int64{
		"history_cases":                         nCases,
		"history_bases":                         int64(len(bases)),
		"history_max_length":                    int64(maxLen),
		"history_transitions":                   transitions,
		"history_cases_judged":                  judged,
		"history_cases_unsendable":              unsendable,
		"history_cases_map_and_fields_disagree": disagree,
		"history_distinct_states_at_logging":    int64(len(states)),
		"history_violating_cases":               violating,
	}
}
