package msggen

import (
	"io"
	"testing"
)

func TestAuditProbe(t *testing.T) {
	for _, tier := range []string{"quick", "thorough"} {
		specs := EdgeSpace(tier)
		t.Logf("%s: %d edge specs", tier, len(specs))
		seen := map[string]bool{}
		for _, s := range specs {
			if seen[s.String()] {
				t.Errorf("duplicate %s", s)
			}
			seen[s.String()] = true
			m := Build(s)
			if s.Kind == "request" {
				req, err := m.ParseRequest()
				if err != nil {
					t.Errorf("%s: %v\n%q", s, err, m.Wire[:min(200, len(m.Wire))])
					continue
				}
				b, err := io.ReadAll(req.Body)
				if err != nil || string(b) != string(m.Encoded) {
					t.Errorf("%s: body %d vs %d err %v", s, len(b), len(m.Encoded), err)
				}
			} else {
				res, err := m.ParseResponse(m.Request())
				if err != nil {
					t.Errorf("%s: %v", s, err)
					continue
				}
				b, err := io.ReadAll(res.Body)
				if err != nil || string(b) != string(m.Encoded) {
					t.Errorf("%s: body %d vs %d err %v", s, len(b), len(m.Encoded), err)
				}
				if m.BodyOmitted {
					t.Logf("%s: CL=%d TE=%v nobody=%v hdrCL=%q", s, res.ContentLength, res.TransferEncoding, res.Body == nil || res.Body == io.ReadCloser(nil), res.Header.Get("Content-Length"))
				}
			}
		}
	}
	t.Logf("body quick %d thorough %d wide %d widethorough %d header q %d t %d", len(BodySpace("quick")), len(BodySpace("thorough")), len(BodySpaceOf(SizesWide, ChunkingsThorough)), len(BodySpaceOf(SizesWideThorough, ChunkingsThorough)), len(HeaderSpace("quick")), len(HeaderSpace("thorough")))
}
