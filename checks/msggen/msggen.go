// Package msggen is the shared, deterministic HTTP message generator of the C15 and C16 checks.
//
// A message is described by a Spec (a point of an explicitly enumerated finite space), built into wire bytes
// together with its ground truth (header lines, parameters, cookies, payload before and after content
// coding, chunk list, trailers). The checks parse the wire bytes with http.ReadRequest / http.ReadResponse so
// the bodies the code under test sees are the real streaming readers of net/http. Nothing here imports martian
// and nothing is random: "incompressible" content comes from a fixed linear congruential sequence.
package msggen

import (
	"bufio"
	"bytes"
	"compress/flate"
	"compress/gzip"
	"compress/zlib"
	"fmt"
	"hash/adler32"
	"net/http"
	"net/url"
	"sort"
	"strconv"
	"strings"
	"sync"
)

// KV is a name/value pair (header line, query parameter, form parameter, trailer).
type KV struct{ Name, Value string }

// Cookie is the ground truth of one cookie.
type Cookie struct {
	Name, Value, Path, Domain string
	Expires                   string // RFC 3339, "" if none
	HTTPOnly, Secure          bool
}

// Part is the ground truth of one multipart/form-data part.
type Part struct{ Name, Filename, ContentType, Value string }

// Spec is one point of the enumerated space.
type Spec struct {
	Space    string `json:"space"` // "body" (body x framing x coding x type) or "header" (start line, cookies, query, redirects)
	Kind     string `json:"kind"`  // "request" | "response"
	Method   string `json:"method,omitempty"`
	Version  string `json:"version"` // "1.1" | "1.0"
	Status   int    `json:"status,omitempty"`
	Size     int    `json:"size"`               // requested size of the identity payload
	Framing  string `json:"framing"`            // "cl" | "chunked" | "close" | "none"
	Chunking string `json:"chunking,omitempty"` // "whole" | "first1" | "fixed1000" | "fixed4096" | "fixed7"
	Trailers int    `json:"trailers"`
	Enc      string `json:"enc"` // "none" | "gzip" | "deflate" | "deflate-zlib" | "br" | "gzip-badmagic" | "gzip-baddata"
	CT       string `json:"ct"`  // "none" | "text" | "text-mixedcase" | "json" | "binary" | "form:P1".. | "multipart:M1"..
	Query    int    `json:"query"`
	Cookies  int    `json:"cookies"`
	Extra    int    `json:"extra"`
	Loc      int    `json:"loc"`
	CEOnly   bool   `json:"ce_only,omitempty"` // bodiless response that still carries Content-Encoding: gzip
	// ForMethod is the method of the request a response answers ("" = GET). A response to HEAD carries the
	// framing headers of its Framing/Size but no body bytes.
	ForMethod string `json:"for_method,omitempty"`
	// Adjust changes the PARSED form of a request the way a modifier upstream of the logger may have left it:
	// "te+cl": Transfer-Encoding [chunked] and ContentLength = body length at once (martian's body.Modifier sets
	// ContentLength and leaves TransferEncoding alone; net/http and messageview go by the transfer coding);
	// "unknown-length": no transfer coding and ContentLength -1 with a body (net/http sends it chunked).
	Adjust string `json:"adjust,omitempty"`
}

func (s Spec) String() string {
	str := fmt.Sprintf("%s/%s %s%s%d v%s size=%d %s/%s tr=%d enc=%s ct=%s q=%d ck=%d x=%d loc=%d", s.Space, s.Kind, s.Method, map[bool]string{true: " ", false: ""}[s.Method != ""], s.Status, s.Version, s.Size, s.Framing, s.Chunking, s.Trailers, s.Enc, s.CT, s.Query, s.Cookies, s.Extra, s.Loc)
	if s.ForMethod != "" {
		str += " for=" + s.ForMethod
	}
	if s.Adjust != "" {
		str += " adjust=" + s.Adjust
	}
	return str
}

// Msg is a built message with its ground truth.
type Msg struct {
	Spec Spec
	Wire []byte

	Method, Target, Proto string // request line parts (requests); Proto also for responses
	Host                  string
	Status                int
	Reason                string
	Headers               []KV   // every header line of the wire, in order
	ContentType           string // value of the Content-Type header ("" if absent)
	DeclaredCE            string // value of the Content-Encoding header ("" if absent)

	Payload     []byte // identity body (before content coding)
	Encoded     []byte // body after content coding = what the origin receives once de-chunked
	Decodable   bool   // the content coding can be undone (none, gzip, deflate in either wrapping)
	Corrupt     bool   // the coded data is deliberately corrupt: "fully decoded" is undefined
	Chunks      []int
	TrailerKV   []KV
	Query       []KV
	Cookies     []Cookie
	Form        []KV   // ground truth parameters of a form body (nil otherwise)
	Parts       []Part // ground truth parts of a multipart body (nil otherwise)
	Location    string
	NonTrivial  bool // non-empty body and (chunked or content-coded or trailers or close-delimited)
	BodyAllowed bool
	// BodyOmitted: the framing headers announce a body (Content-Length: n / chunked) that the message does not
	// carry because of its status (304) or because it answers a HEAD request.
	BodyOmitted bool
	// Partial: 206 Partial Content - the body is a fragment, "fully decoded" is not defined for it.
	Partial bool
	// ForMethod is the method of the request this response answers ("GET" unless the Spec says otherwise).
	ForMethod string
}

// ---------------------------------------------------------------------------------------------------------
// pools

var (
	// Sizes per tier (identity payload sizes).
	SizesQuick = []int{0, 1, 4096, 65537}
	// SizesThorough: the buffer constants of the code a body passes through (io.ReadAll / bytes.Buffer start at
	// 512 bytes, bufio at 4096, io.Copy at 32 KiB, 64 KiB), each with a value below, at and above it, and 1 MiB.
	SizesThorough = []int{0, 1, 2, 511, 512, 513, 4095, 4096, 4097, 32767, 32768, 32769, 65536, 65537, 1 << 20}

	ChunkingsQuick    = []string{"whole", "first1", "fixed1000"}
	ChunkingsThorough = []string{"whole", "first1", "fixed1000", "fixed4096", "fixed7"}

	Encodings = []string{"none", "gzip", "deflate", "deflate-zlib", "br", "gzip-badmagic", "gzip-baddata", "gzip-multi"}

	RequestCTs  = []string{"text", "text-mixedcase", "json", "binary", "form:P1", "form:P2", "form:P3", "multipart:M1", "multipart:M2", "multipart:M3"}
	ResponseCTs = []string{"text", "text-mixedcase", "json", "binary", "form:P1", "multipart:M2"}

	TrailerPool = []KV{{"X-T1", "v1"}, {"X-T2", "second value"}}

	// entries 0..3 are enumerated by HeaderSpace; entry 4 (a percent-encoded value that is not UTF-8) by EdgeSpace
	// entries 5 and 6 (EdgeSpace): '=' inside values (a URL, base64 padding, an equation), '=' inside a name
	// (%3D), an empty name, a flag without '=', a lone '='
	QueryRaw = []string{"", "a=1", "x=1&y=%20z%26&x=3&empty=", "q=a+b&%D0%BA=%D0%B2", "b=%FF%FE&ok=1",
		"next=/login?user=bob&sig=YWJjZA==&expr=1+1=2", "a%3Db=c&=v&flag&x=1=2=3&="}
	QueryTruth = [][]KV{nil, {{"a", "1"}}, {{"x", "1"}, {"y", " z&"}, {"x", "3"}, {"empty", ""}}, {{"q", "a b"}, {"к", "в"}}, {{"b", "\xff\xfe"}, {"ok", "1"}},
		{{"next", "/login?user=bob"}, {"sig", "YWJjZA=="}, {"expr", "1 1=2"}}, {{"a=b", "c"}, {"", "v"}, {"flag", ""}, {"x", "1=2=3"}, {"", ""}}}
	headerSpaceQueries = 4

	ReqCookieHeaders = [][]string{nil, {"a=1"}, {"a=1; b=two"}, {"a=1", "b=2"}}
	ReqCookieTruth   = [][]Cookie{nil, {{Name: "a", Value: "1"}}, {{Name: "a", Value: "1"}, {Name: "b", Value: "two"}}, {{Name: "a", Value: "1"}, {Name: "b", Value: "2"}}}

	ResCookieHeaders = [][]string{nil, {"sid=abc"},
		{"sid=abc; Path=/p; Domain=example.com; Expires=Wed, 21 Oct 2026 07:28:00 GMT; HttpOnly; Secure"},
		{"a=1; Secure", "b=2; Path=/; HttpOnly"}}
	ResCookieTruth = [][]Cookie{nil, {{Name: "sid", Value: "abc"}},
		{{Name: "sid", Value: "abc", Path: "/p", Domain: "example.com", Expires: "2026-10-21T07:28:00Z", HTTPOnly: true, Secure: true}},
		{{Name: "a", Value: "1", Secure: true}, {Name: "b", Value: "2", Path: "/", HTTPOnly: true}}}

	ExtraHeaders = [][]KV{nil, {{"X-Multi", "a"}, {"X-Multi", "b"}, {"X-Empty", ""}},
		// repeated fields whose values are not in ascending order (the order of the lines is part of the message)
		{{"X-Multi", "zeta"}, {"X-Multi", "alpha"}, {"Via", "1.1 second"}, {"Via", "1.0 first"}, {"Accept-Language", "fr;q=0.9"}, {"Accept-Language", "en"}},
		// entry 3 (EdgeSpace only): a field value with obs-text bytes that are not UTF-8 (RFC 7230 section 3.2.6)
		{{"X-Bin", "caf\xe9 \xff"}}}
	headerSpaceExtras = 3

	Locations = []string{"http://example.com/new?x=1", "/login"}

	formSets = map[string][]KV{
		"P1": {{"a", "1"}},
		"P2": {{"x", "1"}, {"y", " z&="}, {"x", "3"}, {"empty", ""}},
		"P3": {{"bin", "\xff\xfe"}, {"ключ", "значение"}},
		"P4": {{"n\xffme", "v"}, {"k", "w"}}, // a parameter NAME that is not UTF-8
	}
	partSets = map[string][]Part{
		"M1": {{Name: "a", Value: "1"}},
		"M2": {{Name: "note", Value: "hello world"}, {Name: "f", Filename: "a.txt", ContentType: "text/plain", Value: "line1\r\nline2"}},
		"M3": {{Name: "blob", Filename: "b.bin", ContentType: "application/octet-stream", Value: "\xff\xfe\x00\x80binary\xc3"}, {Name: "k", Value: "v"}},
		"M4": {{Name: "empty", Value: ""}, {Name: "typed", ContentType: "application/json", Value: "{}"}}, // empty value; typed part without a file name
	}
)

// Boundary is the multipart boundary of every generated multipart body.
const Boundary = "XbOuNdArYx"

var statusReason = map[int]string{200: "OK", 201: "Created", 204: "No Content", 206: "Partial Content", 301: "Moved Permanently", 302: "Found", 304: "Not Modified", 404: "Not Found",
	300: "Multiple Choices", 303: "See Other", 307: "Temporary Redirect", 308: "Permanent Redirect"}

// ---------------------------------------------------------------------------------------------------------
// spaces

// BodySpace enumerates kind x size x framing(x chunk list x trailers) x content coding x content type, with
// fixed header decoration. Messages whose chunk lists coincide (small bodies) are emitted once.
func BodySpace(tier string) []Spec {
	sizes, chunkings := SizesQuick, ChunkingsQuick
	if tier == "thorough" {
		sizes, chunkings = SizesThorough, ChunkingsThorough
	}
	return BodySpaceOf(sizes, chunkings)
}

// BodySpaceOf is BodySpace over explicit size and chunking pools.
func BodySpaceOf(sizes []int, chunkings []string) []Spec {
	var out []Spec
	for _, kind := range []string{"request", "response"} {
		cts := RequestCTs
		if kind == "response" {
			cts = ResponseCTs
		}
		for _, size := range sizes {
			for _, ct := range cts {
				for _, enc := range Encodings {
					base := Spec{Space: "body", Kind: kind, Version: "1.1", Size: size, Enc: enc, CT: ct}
					if kind == "request" {
						base.Method = "POST"
						base.Query = 1
					} else {
						base.Status = 200
					}
					s := base
					s.Framing = "cl"
					out = append(out, s)
					if kind == "response" {
						s = base
						s.Framing = "close"
						out = append(out, s)
					}
					encLen := len(encodedBody(ct, size, enc).encoded)
					seen := map[string]bool{}
					for _, ch := range chunkings {
						key := fmt.Sprint(chunkList(encLen, ch))
						if seen[key] {
							continue
						}
						seen[key] = true
						for tr := 0; tr <= 2; tr++ {
							s = base
							s.Framing, s.Chunking, s.Trailers = "chunked", ch, tr
							out = append(out, s)
						}
					}
				}
			}
		}
	}
	return out
}

// HeaderSpace enumerates start line x version x query x cookies x repeated/empty headers x redirects x
// bodiless statuses over small identity text bodies (size 0 and 5) with Content-Length and chunked framing.
func HeaderSpace(tier string) []Spec {
	var out []Spec
	nq := 3
	if tier == "thorough" {
		nq = headerSpaceQueries
	}
	for _, method := range []string{"GET", "POST", "PUT"} {
		for _, ver := range []string{"1.1", "1.0"} {
			for q := 0; q < nq; q++ {
				for ck := range ReqCookieHeaders {
					for x := 0; x < headerSpaceExtras; x++ {
						type fr struct {
							framing string
							size    int
						}
						var frs []fr
						if method == "GET" {
							frs = []fr{{"none", 0}}
						} else {
							frs = []fr{{"cl", 0}, {"cl", 5}}
							if ver == "1.1" {
								frs = append(frs, fr{"chunked", 0}, fr{"chunked", 5})
							}
						}
						for _, f := range frs {
							s := Spec{Space: "header", Kind: "request", Method: method, Version: ver, Size: f.size, Framing: f.framing, Enc: "none", CT: "text", Query: q, Cookies: ck, Extra: x}
							if f.framing == "chunked" {
								s.Chunking = "whole"
							}
							if f.framing == "none" {
								s.CT = "none"
							}
							out = append(out, s)
						}
					}
				}
			}
		}
	}
	for _, status := range []int{200, 201, 301, 302, 404, 204, 304, 300, 303, 307, 308} {
		for _, ver := range []string{"1.1", "1.0"} {
			for ck := range ResCookieHeaders {
				for x := 0; x < headerSpaceExtras; x++ {
					locs := []int{0}
					if status == 301 || status == 302 {
						locs = []int{0, 1}
					}
					if status == 300 || status == 303 || status == 307 || status == 308 {
						// the remaining redirect statuses: with a Location header, plain header set only
						if x != 0 {
							continue
						}
						locs = []int{1}
					}
					for _, loc := range locs {
						base := Spec{Space: "header", Kind: "response", Status: status, Version: ver, Enc: "none", CT: "text", Cookies: ck, Extra: x, Loc: loc}
						if status == 204 || status == 304 {
							s := base
							s.Framing, s.CT = "none", "none"
							out = append(out, s)
							s.CEOnly = true
							out = append(out, s)
							continue
						}
						for _, size := range []int{0, 5} {
							s := base
							s.Size, s.Framing = size, "cl"
							out = append(out, s)
							if ver == "1.1" {
								s.Framing, s.Chunking = "chunked", "whole"
								out = append(out, s)
							}
							if size > 0 {
								s = base
								s.Size, s.Framing = size, "close"
								out = append(out, s)
							}
						}
					}
				}
			}
		}
	}
	return out
}

// EdgeSpace enumerates the dimensions that BodySpace and HeaderSpace hold at one value: request methods other
// than POST that carry a body; content types that are absent, carry parameters, are spelled in upper case,
// quote or lack the multipart boundary, do not parse as a media type, or announce a form that does not parse;
// bytes that are not UTF-8 outside the body (query value, header value, form parameter name); responses whose
// status (206, 304) or request method (HEAD) changes what the framing headers mean; a Location header on a
// response that is not a redirect. The tiers differ in the body sizes only.
func EdgeSpace(tier string) []Spec {
	var out []Spec
	type fr struct {
		framing, chunking string
		trailers          int
	}
	reqFramings := []fr{{"cl", "", 0}, {"chunked", "first1", 0}, {"chunked", "whole", 1}}
	sizes := []int{0, 300}
	if tier == "thorough" {
		sizes = []int{0, 1, 300, 5000}
	}
	// request methods with a body
	for _, method := range []string{"GET", "DELETE", "PATCH", "OPTIONS", "PUT"} {
		for _, f := range reqFramings {
			for _, ct := range []string{"json", "form:P2"} {
				for _, enc := range []string{"none", "gzip"} {
					out = append(out, Spec{Space: "edge", Kind: "request", Method: method, Version: "1.1", Size: 300, Framing: f.framing, Chunking: f.chunking, Trailers: f.trailers, Enc: enc, CT: ct, Query: 1})
				}
			}
		}
	}
	// content-type spellings (requests: all; responses: those that matter for capture options and decoding)
	reqCTs := []string{"none", "text-badct", "form-params:P2", "form-upper:P2", "form:P4", "form-bad", "multipart-quoted:M2", "multipart-noboundary:M1", "multipart-otherboundary:M2", "multipart:M4"}
	resCTs := []string{"none", "text-badct", "form-params:P2", "multipart-quoted:M2"}
	for _, kind := range []string{"request", "response"} {
		cts, framings := reqCTs, reqFramings
		if kind == "response" {
			cts, framings = resCTs, append(append([]fr{}, reqFramings...), fr{"close", "", 0})
		}
		for _, ct := range cts {
			for _, f := range framings {
				for _, enc := range []string{"none", "gzip", "deflate-zlib", "br"} {
					for _, size := range sizes {
						s := Spec{Space: "edge", Kind: kind, Version: "1.1", Size: size, Framing: f.framing, Chunking: f.chunking, Trailers: f.trailers, Enc: enc, CT: ct}
						if kind == "request" {
							s.Method, s.Query = "POST", 1
						} else {
							s.Status = 200
						}
						out = append(out, s)
					}
				}
			}
		}
	}
	// bytes that are not UTF-8 outside the body
	for _, f := range []fr{{"none", "", 0}, {"cl", "", 0}, {"chunked", "whole", 1}} {
		for _, q := range []int{1, 4} {
			for _, x := range []int{0, 3} {
				if q == 1 && x == 0 {
					continue
				}
				s := Spec{Space: "edge", Kind: "request", Method: "POST", Version: "1.1", Size: 5, Framing: f.framing, Chunking: f.chunking, Trailers: f.trailers, Enc: "none", CT: "text", Query: q, Extra: x, Cookies: 1}
				if f.framing == "none" {
					s.Method, s.CT, s.Size = "GET", "none", 0
				}
				out = append(out, s)
			}
		}
		if f.framing != "none" {
			out = append(out, Spec{Space: "edge", Kind: "response", Status: 200, Version: "1.1", Size: 5, Framing: f.framing, Chunking: f.chunking, Trailers: f.trailers, Enc: "none", CT: "text", Extra: 3, Cookies: 1})
		}
	}
	// zlib-wrapped deflate announcing a window smaller than 32 KiB (first byte 0x08 ... 0x68 instead of 0x78)
	for wbits := 8; wbits <= 14; wbits++ {
		enc := "deflate-zlib-w" + strconv.Itoa(wbits)
		for _, size := range []int{1, 300, 5000} {
			for _, f := range []fr{{"cl", "", 0}, {"chunked", "first1", 0}, {"close", "", 0}} {
				for _, ct := range []string{"text", "binary"} {
					out = append(out, Spec{Space: "edge", Kind: "response", Status: 200, Version: "1.1", Size: size, Framing: f.framing, Chunking: f.chunking, Enc: enc, CT: ct})
				}
				if f.framing != "close" {
					out = append(out, Spec{Space: "edge", Kind: "request", Method: "POST", Version: "1.1", Size: size, Framing: f.framing, Chunking: f.chunking, Enc: enc, CT: "text", Query: 1})
				}
			}
		}
	}
	// '=' in query values and names, empty names, flags
	for _, f := range []fr{{"none", "", 0}, {"cl", "", 0}, {"chunked", "whole", 0}} {
		for _, q := range []int{5, 6} {
			s := Spec{Space: "edge", Kind: "request", Method: "POST", Version: "1.1", Size: 5, Framing: f.framing, Chunking: f.chunking, Enc: "none", CT: "text", Query: q}
			if f.framing == "none" {
				s.Method, s.CT, s.Size = "GET", "none", 0
			}
			out = append(out, s)
		}
	}
	// parsed forms a modifier may leave behind: chunked AND a content length; a body of unknown length
	for _, adj := range []string{"te+cl", "unknown-length"} {
		frs := []fr{{"chunked", "first1", 0}, {"chunked", "fixed1000", 0}, {"chunked", "whole", 0}}
		if adj == "unknown-length" {
			frs = []fr{{"cl", "", 0}}
		}
		for _, f := range frs {
			for _, ct := range []string{"text", "binary", "form:P2", "multipart:M2"} {
				for _, enc := range []string{"none", "gzip"} {
					for _, size := range append([]int{4096}, sizes...) {
						out = append(out, Spec{Space: "edge", Kind: "request", Method: "POST", Version: "1.1", Size: size, Framing: f.framing, Chunking: f.chunking, Trailers: f.trailers, Enc: enc, CT: ct, Query: 1, Adjust: adj})
					}
				}
			}
		}
	}
	// 206 Partial Content: a fragment of a (possibly content-coded) representation
	for _, f := range []fr{{"cl", "", 0}, {"chunked", "first1", 0}, {"chunked", "whole", 2}, {"close", "", 0}} {
		for _, enc := range []string{"none", "gzip", "deflate"} {
			for _, size := range sizes {
				for _, ct := range []string{"text", "binary"} {
					out = append(out, Spec{Space: "edge", Kind: "response", Status: 206, Version: "1.1", Size: size, Framing: f.framing, Chunking: f.chunking, Trailers: f.trailers, Enc: enc, CT: ct})
				}
			}
		}
	}
	// framing headers without a body: 304 Not Modified and answers to HEAD
	for _, f := range []fr{{"cl", "", 0}, {"chunked", "whole", 0}, {"none", "", 0}} {
		for _, enc := range []string{"none", "gzip"} {
			for _, size := range sizes {
				if size == 1 {
					continue
				}
				for _, ver := range []string{"1.1", "1.0"} {
					if ver == "1.0" && f.framing == "chunked" {
						continue
					}
					if f.framing != "none" {
						out = append(out, Spec{Space: "edge", Kind: "response", Status: 304, Version: ver, Size: size, Framing: f.framing, Chunking: f.chunking, Enc: enc, CT: "text", Cookies: 1})
					}
					for _, status := range []int{200, 404, 301} {
						s := Spec{Space: "edge", Kind: "response", Status: status, Version: ver, Size: size, Framing: f.framing, Chunking: f.chunking, Enc: enc, CT: "text", ForMethod: "HEAD", Cookies: 1}
						if f.framing == "none" {
							if enc != "none" || size != 0 {
								continue
							}
							s.CT = "none"
						}
						out = append(out, s)
					}
				}
			}
		}
	}
	// Location on a response that is not a redirect
	for _, status := range []int{200, 201, 404} {
		for _, f := range []fr{{"cl", "", 0}, {"chunked", "whole", 0}} {
			out = append(out, Spec{Space: "edge", Kind: "response", Status: status, Version: "1.1", Size: 5, Framing: f.framing, Chunking: f.chunking, Enc: "none", CT: "text", Loc: 1})
		}
	}
	return out
}

// ---------------------------------------------------------------------------------------------------------
// content

// lcg yields the fixed byte sequence used for "incompressible" content.
func lcg(n int, seed uint32) []byte {
	b := make([]byte, n)
	x := seed
	for i := range b {
		x = x*1664525 + 1013904223
		b[i] = byte(x >> 24)
	}
	return b
}

const textAlphabet = "abcdefghijklmnopqrstuvwxyzABCDEFGHIJKLMNOPQRSTUVWXYZ0123456789 \n"

func asciiFill(n int, seed uint32) []byte {
	b := lcg(n, seed)
	for i := range b {
		b[i] = textAlphabet[b[i]&63]
	}
	return b
}

type content struct {
	payload []byte
	form    []KV
	parts   []Part
}

type encoded struct {
	content
	encoded   []byte
	decodable bool
	corrupt   bool
}

var (
	cacheMu    sync.Mutex
	contentMap = map[string]*content{}
	encodedMap = map[string]*encoded{}
)

func formEncode(kvs []KV) string {
	var sb strings.Builder
	for i, kv := range kvs {
		if i > 0 {
			sb.WriteByte('&')
		}
		sb.WriteString(url.QueryEscape(kv.Name))
		sb.WriteByte('=')
		sb.WriteString(url.QueryEscape(kv.Value))
	}
	return sb.String()
}

func multipartEncode(parts []Part) []byte {
	var b bytes.Buffer
	for _, p := range parts {
		b.WriteString("--" + Boundary + "\r\n")
		if p.Filename != "" {
			fmt.Fprintf(&b, "Content-Disposition: form-data; name=%q; filename=%q\r\n", p.Name, p.Filename)
		} else {
			fmt.Fprintf(&b, "Content-Disposition: form-data; name=%q\r\n", p.Name)
		}
		if p.ContentType != "" {
			fmt.Fprintf(&b, "Content-Type: %s\r\n", p.ContentType)
		}
		b.WriteString("\r\n")
		b.WriteString(p.Value)
		b.WriteString("\r\n")
	}
	b.WriteString("--" + Boundary + "--\r\n")
	return b.Bytes()
}

// makeContent builds the identity payload of the requested size for a content-type class. Form and
// multipart payloads are built from a ground-truth parameter list plus a "pad" parameter that brings the
// body to the requested size; when the requested size is smaller than the list needs, the smallest
// well-formed body is produced instead (size 0 is always the empty body).
func makeContent(ct string, n int) *content {
	key := ct + "/" + strconv.Itoa(n)
	cacheMu.Lock()
	c := contentMap[key]
	cacheMu.Unlock()
	if c != nil {
		return c
	}
	c = &content{}
	kind, set := CTKind(ct)
	isForm := kind == "form" || kind == "form-params" || kind == "form-upper"
	isMultipart := kind == "multipart" || kind == "multipart-quoted" || kind == "multipart-noboundary" || kind == "multipart-otherboundary"
	switch {
	case n == 0:
		c.payload = []byte{}
		if isForm {
			c.form = []KV{}
		}
		if isMultipart {
			c.parts = []Part{}
		}
	case ct == "form-bad":
		// not parseable as application/x-www-form-urlencoded (invalid escape): no parameter list exists
		c.payload = []byte("a=%zz&b=1")
	case ct == "text" || ct == "text-mixedcase" || ct == "none" || ct == "text-badct":
		c.payload = asciiFill(n, 1)
	case ct == "json":
		if n < 9 {
			c.payload = []byte(strings.Repeat("7", n))
		} else {
			c.payload = append(append([]byte(`{"k":"`), bytes.ReplaceAll(asciiFill(n-8, 2), []byte("\n"), []byte(" "))...), `"}`...)
		}
	case ct == "binary":
		c.payload = lcg(n, 3)
		copy(c.payload, []byte{0xff, 0xfe, 0x00, 0x80, 0xc3})
	case isForm:
		kvs := append([]KV(nil), formSets[set]...)
		base := formEncode(kvs)
		switch {
		case n >= len(base)+5:
			kvs = append(kvs, KV{"pad", string(bytes.ReplaceAll(asciiFill(n-len(base)-5, 4), []byte("\n"), []byte("Z")))})
			// spaces are escaped as '+', one byte each, so the size is exact
		case n == 1:
			kvs = []KV{{"a", ""}}
			c.payload = []byte("a")
		default:
			if n < len(base) {
				kvs = []KV{{"a", strings.Repeat("1", n-2)}}
			}
		}
		if c.payload == nil {
			c.payload = []byte(formEncode(kvs))
		}
		c.form = kvs
	case isMultipart:
		parts := append([]Part(nil), partSets[set]...)
		base := len(multipartEncode(parts))
		padOverhead := len(multipartEncode(append(append([]Part(nil), parts...), Part{Name: "pad"}))) - base
		if n >= base+padOverhead {
			parts = append(parts, Part{Name: "pad", Value: string(asciiFill(n-base-padOverhead, 5))})
		}
		c.payload = multipartEncode(parts)
		c.parts = parts
	default:
		panic("unknown content type class " + ct)
	}
	cacheMu.Lock()
	contentMap[key] = c
	cacheMu.Unlock()
	return c
}

// CTKind splits a content-type class "kind:set" into its parts ("text" -> "text", "").
func CTKind(ct string) (kind, set string) {
	if i := strings.IndexByte(ct, ':'); i >= 0 {
		return ct[:i], ct[i+1:]
	}
	return ct, ""
}

func encodedBody(ct string, n int, enc string) *encoded {
	key := ct + "/" + strconv.Itoa(n) + "/" + enc
	cacheMu.Lock()
	e := encodedMap[key]
	cacheMu.Unlock()
	if e != nil {
		return e
	}
	c := makeContent(ct, n)
	e = &encoded{content: *c, decodable: true}
	gz := func() []byte {
		var b bytes.Buffer
		w := gzip.NewWriter(&b)
		w.Write(c.payload)
		w.Close()
		return b.Bytes()
	}
	switch enc {
	case "none":
		e.encoded = c.payload
	case "gzip":
		e.encoded = gz()
	case "gzip-multi":
		// two gzip members back to back (RFC 1952 section 2.2): decodes to the concatenation
		if len(c.payload) < 2 {
			e.encoded = append(gz(), gz()[:0]...)
			var b bytes.Buffer
			w := gzip.NewWriter(&b)
			w.Close()
			e.encoded = append(e.encoded, b.Bytes()...) // second member is empty
		} else {
			h := len(c.payload) / 2
			var b bytes.Buffer
			w := gzip.NewWriter(&b)
			w.Write(c.payload[:h])
			w.Close()
			w = gzip.NewWriter(&b)
			w.Write(c.payload[h:])
			w.Close()
			e.encoded = b.Bytes()
		}
	case "gzip-badmagic":
		e.encoded = gz()
		e.encoded[0] ^= 0xff
		e.decodable, e.corrupt = false, true
	case "gzip-baddata":
		e.encoded = gz()
		// flip one byte in the middle of the deflate stream and one in the CRC
		e.encoded[10+(len(e.encoded)-18)/2] ^= 0xff
		e.encoded[len(e.encoded)-8] ^= 0x01
		e.decodable, e.corrupt = false, true
	case "deflate":
		var b bytes.Buffer
		w, _ := flate.NewWriter(&b, flate.DefaultCompression)
		w.Write(c.payload)
		w.Close()
		e.encoded = b.Bytes()
	case "deflate-zlib":
		var b bytes.Buffer
		w := zlib.NewWriter(&b)
		w.Write(c.payload)
		w.Close()
		e.encoded = b.Bytes()
	case "deflate-zlib-w8", "deflate-zlib-w9", "deflate-zlib-w10", "deflate-zlib-w11", "deflate-zlib-w12", "deflate-zlib-w13", "deflate-zlib-w14":
		// RFC 1950 with a window smaller than 32 KiB (compress/zlib always announces 32 KiB, first byte 0x78):
		// CMF = CINFO<<4 | 8 with CINFO = wbits-8, FLG = the check bits that make CMF*256+FLG a multiple of 31,
		// a raw deflate stream whose back references stay inside the window (ordinary compression when the whole
		// payload fits into the window, Huffman coding without matches otherwise), Adler-32 of the payload.
		wbits, _ := strconv.Atoi(strings.TrimPrefix(enc, "deflate-zlib-w"))
		cmf := byte(wbits-8)<<4 | 8
		flg := byte(31 - (uint16(cmf)<<8)%31)
		if flg == 31 {
			flg = 0
		}
		level := flate.HuffmanOnly
		if len(c.payload) <= 1<<uint(wbits) {
			level = flate.DefaultCompression
		}
		var b bytes.Buffer
		b.Write([]byte{cmf, flg})
		w, _ := flate.NewWriter(&b, level)
		w.Write(c.payload)
		w.Close()
		sum := adler32.Checksum(c.payload)
		b.Write([]byte{byte(sum >> 24), byte(sum >> 16), byte(sum >> 8), byte(sum)})
		e.encoded = b.Bytes()
	case "br":
		// not brotli (none is available offline) - any byte string stands in for a coding nobody can undo
		e.encoded = make([]byte, len(c.payload))
		for i, x := range c.payload {
			e.encoded[len(c.payload)-1-i] = x ^ 0xa5
		}
		e.decodable = false
	default:
		panic("unknown encoding " + enc)
	}
	cacheMu.Lock()
	encodedMap[key] = e
	cacheMu.Unlock()
	return e
}

func chunkList(n int, chunking string) []int {
	if n == 0 {
		return nil
	}
	fixed := func(k int) []int {
		var out []int
		for n > 0 {
			c := k
			if c > n {
				c = n
			}
			out = append(out, c)
			n -= c
		}
		return out
	}
	switch chunking {
	case "whole":
		return []int{n}
	case "first1":
		if n == 1 {
			return []int{1}
		}
		return []int{1, n - 1}
	case "fixed1000":
		return fixed(1000)
	case "fixed4096":
		return fixed(4096)
	case "fixed7":
		if n > 4200 { // byte-sized chunking is only enumerated for bodies up to one buffer
			return fixed(4096)
		}
		return fixed(7)
	}
	panic("unknown chunking " + chunking)
}

func contentTypeHeader(ct string) string {
	switch {
	case ct == "none":
		return ""
	case ct == "text":
		return "text/plain"
	case ct == "text-mixedcase":
		return "Text/Plain; charset=UTF-8"
	case ct == "json":
		return "application/json"
	case ct == "binary":
		return "application/octet-stream"
	case ct == "text-badct":
		return "text/plain; charset" // a parameter without a value: not a parseable media type
	case ct == "form-bad":
		return "application/x-www-form-urlencoded"
	}
	switch kind, _ := CTKind(ct); kind {
	case "form":
		return "application/x-www-form-urlencoded"
	case "form-params":
		return "application/x-www-form-urlencoded; charset=UTF-8"
	case "form-upper":
		return "Application/X-WWW-Form-URLEncoded"
	case "multipart":
		return "multipart/form-data; boundary=" + Boundary
	case "multipart-quoted":
		return "multipart/form-data; boundary=\"" + Boundary + "\""
	case "multipart-noboundary":
		return "multipart/form-data"
	case "multipart-otherboundary":
		// round 9: a well-formed Content-Type whose boundary is not the one the body uses (a malformed upload):
		// the body cannot be split into parts, and a logger that tries must still leave it intact
		return "multipart/form-data; boundary=not-" + Boundary
	}
	panic("unknown ct " + ct)
}

func declaredCE(enc string) string {
	switch enc {
	case "none":
		return ""
	case "gzip", "gzip-multi", "gzip-badmagic", "gzip-baddata":
		return "gzip"
	case "deflate", "deflate-zlib":
		return "deflate"
	}
	if strings.HasPrefix(enc, "deflate-zlib-w") {
		return "deflate"
	}
	return enc
}

// Build turns a Spec into wire bytes plus ground truth.
func Build(s Spec) *Msg {
	m := &Msg{Spec: s, Proto: "HTTP/" + s.Version, Host: "example.com"}
	e := encodedBody(s.CT, s.Size, s.Enc)
	m.ForMethod = s.ForMethod
	if m.ForMethod == "" {
		m.ForMethod = "GET"
	}
	m.BodyOmitted = s.Kind == "response" && s.Framing != "none" && (s.ForMethod == "HEAD" || s.Status == 304)
	m.Partial = s.Status == 206
	m.BodyAllowed = s.Framing != "none" && !m.BodyOmitted
	if m.BodyAllowed {
		m.Payload, m.Encoded, m.Decodable, m.Corrupt = e.payload, e.encoded, e.decodable, e.corrupt
		m.Form, m.Parts = e.form, e.parts
		if kind, _ := CTKind(s.CT); kind == "multipart-noboundary" || kind == "multipart-otherboundary" {
			m.Parts = nil // without a boundary parameter the body cannot be split into parts
		}
	} else {
		m.Payload, m.Encoded, m.Decodable = []byte{}, []byte{}, true
	}
	var w bytes.Buffer
	add := func(n, v string) {
		m.Headers = append(m.Headers, KV{n, v})
	}
	if s.Kind == "request" {
		m.Method = s.Method
		m.Target = "http://example.com/p/a"
		if QueryRaw[s.Query] != "" {
			m.Target += "?" + QueryRaw[s.Query]
		}
		m.Query = QueryTruth[s.Query]
		fmt.Fprintf(&w, "%s %s %s\r\n", m.Method, m.Target, m.Proto)
		add("Host", m.Host)
		add("User-Agent", "msggen/1")
		for _, c := range ReqCookieHeaders[s.Cookies] {
			add("Cookie", c)
		}
		m.Cookies = ReqCookieTruth[s.Cookies]
	} else {
		m.Status, m.Reason = s.Status, statusReason[s.Status]
		fmt.Fprintf(&w, "%s %d %s\r\n", m.Proto, m.Status, m.Reason)
		add("Date", "Thu, 01 Oct 2026 00:00:00 GMT")
		for _, c := range ResCookieHeaders[s.Cookies] {
			add("Set-Cookie", c)
		}
		m.Cookies = ResCookieTruth[s.Cookies]
		if s.Status >= 300 && s.Status < 400 && s.Status != 304 {
			m.Location = Locations[s.Loc]
			add("Location", m.Location)
		} else if s.Loc > 0 {
			// a Location header on a response that is not a redirect (201 Created): no redirect URL
			add("Location", Locations[s.Loc])
		}
	}
	if ct := contentTypeHeader(s.CT); ct != "" {
		m.ContentType = ct
		add("Content-Type", ct)
	}
	if ce := declaredCE(s.Enc); ce != "" {
		m.DeclaredCE = ce
		add("Content-Encoding", ce)
	} else if s.CEOnly {
		m.DeclaredCE = "gzip"
		add("Content-Encoding", "gzip")
	}
	for _, kv := range ExtraHeaders[s.Extra] {
		add(kv.Name, kv.Value)
	}
	switch s.Framing {
	case "cl":
		add("Content-Length", strconv.Itoa(len(m.Encoded)+map[bool]int{true: len(e.encoded)}[m.BodyOmitted]))
	case "chunked":
		add("Transfer-Encoding", "chunked")
		m.Chunks = chunkList(len(m.Encoded), s.Chunking)
		if s.Trailers > 0 && !m.BodyOmitted {
			var names []string
			for _, kv := range TrailerPool[:s.Trailers] {
				names = append(names, kv.Name)
			}
			add("Trailer", strings.Join(names, ", "))
			m.TrailerKV = TrailerPool[:s.Trailers]
		}
	}
	for _, kv := range m.Headers {
		w.WriteString(kv.Name + ": " + kv.Value + "\r\n")
	}
	w.WriteString("\r\n")
	switch {
	case m.BodyOmitted:
	case s.Framing == "cl" || s.Framing == "close":
		w.Write(m.Encoded)
	case s.Framing == "chunked":
		off := 0
		for _, c := range m.Chunks {
			fmt.Fprintf(&w, "%x\r\n", c)
			w.Write(m.Encoded[off : off+c])
			w.WriteString("\r\n")
			off += c
		}
		w.WriteString("0\r\n")
		for _, kv := range m.TrailerKV {
			w.WriteString(kv.Name + ": " + kv.Value + "\r\n")
		}
		w.WriteString("\r\n")
	}
	m.Wire = w.Bytes()
	if s.Adjust == "te+cl" && len(m.Encoded) > 0 {
		// the message the logger sees has a content length as well (not on the wire the client sent)
		add("Content-Length", strconv.Itoa(len(m.Encoded)))
	}
	m.NonTrivial = len(m.Encoded) > 0 && (s.Framing == "chunked" || s.Framing == "close" || s.Enc != "none")
	return m
}

// ---------------------------------------------------------------------------------------------------------
// parsing helpers for the checks

const stdRequestWire = "GET http://example.com/std HTTP/1.1\r\nHost: example.com\r\nUser-Agent: msggen/1\r\n\r\n"

// StdRequest is a fresh plain GET request (the request of every generated response that does not name
// another method).
func StdRequest() *http.Request {
	return StdRequestFor("GET")
}

// StdRequestFor is StdRequest with another method ("" = GET).
func StdRequestFor(method string) *http.Request {
	if method == "" {
		method = "GET"
	}
	req, err := http.ReadRequest(bufio.NewReader(strings.NewReader(method + stdRequestWire[3:])))
	if err != nil {
		panic(err)
	}
	return req
}

// Request returns a fresh request of the kind this response message answers.
func (m *Msg) Request() *http.Request { return StdRequestFor(m.ForMethod) }

// StdResponseWire is a plain 200 response used as the counterpart of generated requests.
const StdResponseWire = "HTTP/1.1 200 OK\r\nContent-Type: text/plain\r\nContent-Length: 2\r\n\r\nok"

// ParseRequest parses the wire bytes of a request message.
func (m *Msg) ParseRequest() (*http.Request, error) {
	req, err := http.ReadRequest(bufio.NewReader(bytes.NewReader(m.Wire)))
	if err != nil {
		return nil, err
	}
	switch m.Spec.Adjust {
	case "te+cl":
		req.ContentLength = int64(len(m.Encoded))
	case "unknown-length":
		req.ContentLength, req.TransferEncoding = -1, nil
	}
	return req, nil
}

// ParseResponse parses the wire bytes of a response message (as the answer to req).
func (m *Msg) ParseResponse(req *http.Request) (*http.Response, error) {
	return http.ReadResponse(bufio.NewReader(bytes.NewReader(m.Wire)), req)
}

// Serialized is the decomposition of a serialised HTTP/1 message, done by this package's own parser.
type Serialized struct {
	Head     string   // start line + header lines + blank line, verbatim
	Lines    []string // header lines (without the start line), verbatim
	Framing  string   // "chunked" | "cl" | "none/close"
	Payload  []byte   // body with chunk framing removed
	Chunks   []int
	Trailer  string // bytes after the last chunk (trailer lines + final CRLF), verbatim
	ParseErr string
}

// Decompose splits serialised message bytes into head, de-chunked payload and trailer section.
func Decompose(b []byte) Serialized { return decompose(b, false) }

// DecomposeBodiless is Decompose for a message that carries no body whatever its framing headers say (a 1xx,
// 204 or 304 response, the answer to a HEAD request): everything after the head is returned as Payload.
func DecomposeBodiless(b []byte) Serialized { return decompose(b, true) }

func decompose(b []byte, bodiless bool) Serialized {
	var s Serialized
	i := bytes.Index(b, []byte("\r\n\r\n"))
	if i < 0 {
		s.ParseErr = "no end of head"
		s.Head = string(b)
		return s
	}
	s.Head = string(b[:i+4])
	rest := b[i+4:]
	lines := strings.Split(string(b[:i]), "\r\n")
	s.Lines = lines[1:]
	chunked := false
	s.Framing = "none/close"
	for _, l := range s.Lines {
		ll := strings.ToLower(l)
		if strings.HasPrefix(ll, "transfer-encoding:") && strings.Contains(ll, "chunked") {
			chunked = true
		}
		if strings.HasPrefix(ll, "content-length:") {
			s.Framing = "cl"
		}
	}
	if chunked {
		s.Framing = "chunked"
	}
	if !chunked || bodiless {
		s.Payload = rest
		return s
	}
	for {
		j := bytes.Index(rest, []byte("\r\n"))
		if j < 0 {
			s.ParseErr = "chunk size line not terminated"
			return s
		}
		line := string(rest[:j])
		if k := strings.IndexByte(line, ';'); k >= 0 {
			line = line[:k]
		}
		n, err := strconv.ParseUint(strings.TrimSpace(line), 16, 31)
		if err != nil {
			s.ParseErr = "bad chunk size " + strconv.Quote(line)
			return s
		}
		rest = rest[j+2:]
		if n == 0 {
			s.Trailer = string(rest)
			return s
		}
		if len(rest) < int(n)+2 || rest[n] != '\r' || rest[n+1] != '\n' {
			s.ParseErr = "chunk data not terminated"
			return s
		}
		s.Payload = append(s.Payload, rest[:n]...)
		s.Chunks = append(s.Chunks, int(n))
		rest = rest[n+2:]
	}
}

// SortedKVs returns "name: value" strings sorted, for multiset comparison.
func SortedKVs(kvs []KV) []string {
	out := make([]string, 0, len(kvs))
	for _, kv := range kvs {
		out = append(out, kv.Name+": "+kv.Value)
	}
	sort.Strings(out)
	return out
}
