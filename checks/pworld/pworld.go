// Package pworld is the shared gosim harness around a real martian.Proxy: a simnet listener, client helpers,
// recording/gated modifiers and a synchronous round tripper. Everything runs inside a vrt execution.
package pworld

import (
	"bufio"
	"bytes"
	"fmt"
	"io"
	"net"
	"net/http"
	"strings"

	martian "github.com/google/martian/v3"
	mlog "github.com/google/martian/v3/log"
	"github.com/google/martian/v3/zzverif/simnet"
	"github.com/google/martian/v3/zzverif/vrt"
)

func init() { mlog.SetLevel(mlog.Silent) }

// Event is a harness-level event with a global order.
type Event struct {
	Tick int
	Tid  int
	Kind string // reqmod-start, reqmod-end, rt-start, rt-end, resmod-start, resmod-end, close-call, close-ret, accept ...
	Conn string // value of the X-Conn header of the request involved, if any
	Info string
}

// World owns one proxy and everything around it for one execution.
type World struct {
	Proxy    *martian.Proxy
	L        *simnet.Listener
	Events   []Event
	Gates    map[string]*vrt.Gate // named gates; a hook waits on Gate(kind+":"+conn) if it exists
	ServeT   *vrt.Thread
	ServeErr error
	ServeRet bool

	// RoundTrip hook: returns the response for a request (default: 200 with a small body).
	Respond func(req *http.Request) (*http.Response, error)
	// Wrap, if set, wraps the simnet listener before Serve (e.g. trafficshape.NewListener).
	Wrap func(net.Listener) net.Listener
	// Optional extra behaviour inside the modifiers.
	OnRequest  func(req *http.Request) error
	OnResponse func(res *http.Response) error
}

// NewWorld builds a proxy with recording modifiers and a synchronous round tripper, and starts Serve.
func NewWorld() *World {
	w := &World{Gates: map[string]*vrt.Gate{}}
	w.Proxy = martian.NewProxy()
	w.Proxy.SetRoundTripper(rtFunc(w.roundTrip))
	w.Proxy.SetRequestModifier(reqMod{w})
	w.Proxy.SetResponseModifier(resMod{w})
	w.L = simnet.Listen("10.0.0.2:8080")
	return w
}

// Start launches the accept loop.
func (w *World) Start() {
	var l net.Listener = w.L
	if w.Wrap != nil {
		l = w.Wrap(w.L)
	}
	w.ServeT = vrt.GoNamed("serve", func() {
		w.ServeErr = w.Proxy.Serve(l)
		w.ServeRet = true
	})
}

// Ev records an event.
func (w *World) Ev(kind, conn, info string) {
	w.Events = append(w.Events, Event{Tick: vrt.Tick(), Tid: vrt.CurID(), Kind: kind, Conn: conn, Info: info})
}

// Gate returns (creating if needed) the named gate.
func (w *World) Gate(name string) *vrt.Gate {
	g, ok := w.Gates[name]
	if !ok {
		g = &vrt.Gate{}
		w.Gates[name] = g
	}
	return g
}

func (w *World) maybeWait(kind, conn string) {
	if g, ok := w.Gates[kind+":"+conn]; ok {
		g.Wait()
	}
}

// Find returns the events of a kind (and conn, if non-empty).
func (w *World) Find(kind, conn string) []Event {
	var out []Event
	for _, e := range w.Events {
		if e.Kind == kind && (conn == "" || e.Conn == conn) {
			out = append(out, e)
		}
	}
	return out
}

type rtFunc func(*http.Request) (*http.Response, error)

func (f rtFunc) RoundTrip(r *http.Request) (*http.Response, error) { return f(r) }

func connOf(req *http.Request) string {
	if req == nil {
		return ""
	}
	return req.Header.Get("X-Conn")
}

type reqMod struct{ w *World }

func (m reqMod) ModifyRequest(req *http.Request) error {
	c := connOf(req)
	m.w.Ev("reqmod-start", c, req.Method+" "+req.URL.String())
	m.w.maybeWait("reqmod", c)
	var err error
	if m.w.OnRequest != nil {
		err = m.w.OnRequest(req)
	}
	m.w.Ev("reqmod-end", c, "")
	return err
}

type resMod struct{ w *World }

func (m resMod) ModifyResponse(res *http.Response) error {
	c := connOf(res.Request)
	m.w.Ev("resmod-start", c, fmt.Sprint(res.StatusCode))
	m.w.maybeWait("resmod", c)
	var err error
	if m.w.OnResponse != nil {
		err = m.w.OnResponse(res)
	}
	m.w.Ev("resmod-end", c, "")
	return err
}

func (w *World) roundTrip(req *http.Request) (*http.Response, error) {
	c := connOf(req)
	w.Ev("rt-start", c, req.Method+" "+req.URL.String())
	w.maybeWait("rt", c)
	var res *http.Response
	var err error
	if w.Respond != nil {
		res, err = w.Respond(req)
	} else {
		res = SimpleResponse(req, 200, "hello from origin "+c)
	}
	w.Ev("rt-end", c, "")
	return res, err
}

// SimpleResponse builds a Content-Length framed response.
func SimpleResponse(req *http.Request, status int, body string) *http.Response {
	return &http.Response{
		StatusCode: status, Status: fmt.Sprintf("%d %s", status, http.StatusText(status)),
		Proto: "HTTP/1.1", ProtoMajor: 1, ProtoMinor: 1,
		Header:        http.Header{"Content-Type": {"text/plain"}},
		Body:          io.NopCloser(strings.NewReader(body)),
		ContentLength: int64(len(body)),
		Request:       req,
	}
}

// Client is a raw client of the proxy.
type Client struct {
	Name string
	C    *simnet.Conn
	BR   *bufio.Reader
	// Raw accumulates everything read.
	Raw bytes.Buffer
	// observations
	Responses []*ClientResponse
	EOF       bool
	Reset     bool // the connection was closed by a reset rather than a FIN
	Err       error
	EOFTick   int
	EOFAt     int64
}

// ClientResponse is what the client parsed.
type ClientResponse struct {
	Status   int
	Header   http.Header
	Body     []byte
	Complete bool
	Close    bool
}

// Dial connects a new client.
func (w *World) Dial(name string) (*Client, error) {
	c, err := w.L.Dial(name)
	if err != nil {
		return nil, err
	}
	cl := &Client{Name: name, C: c}
	cl.BR = bufio.NewReader(io.TeeReader(c, &cl.Raw))
	return cl, nil
}

// GetRequest renders a simple proxied GET.
func GetRequest(conn, path string) string {
	return "GET http://origin.test" + path + " HTTP/1.1\r\nHost: origin.test\r\nX-Conn: " + conn + "\r\n\r\n"
}

// Send writes raw bytes.
func (c *Client) Send(s string) error {
	_, err := c.C.Write([]byte(s))
	return err
}

// ReadResponse parses one response (method is the request method it answers). It records EOF / errors.
func (c *Client) ReadResponse(method string) *ClientResponse {
	if _, err := c.BR.Peek(1); err != nil {
		// nothing more at a message boundary: clean EOF (or a read error)
		c.noteErr(err)
		return nil
	}
	res, err := http.ReadResponse(c.BR, &http.Request{Method: method})
	if err != nil {
		if err == io.EOF {
			err = io.ErrUnexpectedEOF
		}
		c.noteErr(err)
		return nil
	}
	cr := &ClientResponse{Status: res.StatusCode, Header: res.Header, Close: res.Close}
	b, err := io.ReadAll(res.Body)
	cr.Body = b
	cr.Complete = err == nil
	c.Responses = append(c.Responses, cr)
	if err != nil {
		c.noteErr(err)
	}
	return cr
}

// IsReset reports a connection reset (the peer closed while unread data was queued for it: TCP sends RST).
func IsReset(err error) bool {
	return err != nil && (strings.Contains(err.Error(), "connection reset") || strings.Contains(err.Error(), "broken pipe"))
}

func (c *Client) noteErr(err error) {
	if IsReset(err) {
		// the proxy closed the connection while bytes we had sent were still unread: closed, like EOF
		c.EOF = true
		c.Reset = true
		c.EOFTick = vrt.Tick()
		c.EOFAt = int64(vrt.Now())
		return
	}
	if err == io.EOF || err == io.ErrUnexpectedEOF {
		c.EOF = true
		c.EOFTick = vrt.Tick()
		c.EOFAt = int64(vrt.Now())
		if err == io.ErrUnexpectedEOF {
			c.Err = err
		}
		return
	}
	c.Err = err
}

// ReadAllResponses reads responses until EOF or error.
func (c *Client) ReadAllResponses(method string) {
	for {
		if c.ReadResponse(method) == nil {
			return
		}
		if c.EOF || c.Err != nil {
			return
		}
	}
}

// IsNetClosed reports use-of-closed errors.
func IsNetClosed(err error) bool {
	return err != nil && (err == net.ErrClosed || strings.Contains(err.Error(), "use of closed network connection"))
}
