// C01 — HTTP/1 relay preserves every request and response, one-to-one and in order.
//
// Bounded-exhaustive enumeration of request sequences on one client connection (families described in
// families() below), each executed against the REAL martian.NewProxy() with its default http.Transport over
// in-memory connections (a deterministic subset also over loopback TCP), compared with the reference model
// "identity relay modulo hop-by-hop" written from the property statement (DESIGN.md C01 O).
package main

import (
	"bytes"
	"compress/gzip"
	"crypto/sha1"
	"encoding/hex"
	"encoding/json"
	"fmt"
	"net/http"
	"os"
	"sort"
	"strconv"
	"strings"
	"sync"
	"time"

	"verif/checks/h1harness"
	"verif/lib"
)

// ---------------------------------------------------------------------------------------------------
// scenario description

type ReqSpec struct {
	Method  string `json:"m"`
	Abs     bool   `json:"abs"` // absolute-form target (else origin-form + Host)
	Proto   string `json:"p"`   // "1.1", "1.0" (implicit close), "1.0ka" (HTTP/1.0 + Connection: keep-alive)
	HSet    int    `json:"h"`   // request header pool entry
	Framing string `json:"f"`   // none | cl0 | cl | ch1 ([n]) | ch2 ([1,n-1]) | chN ([1]*n) | chT ([n] + trailer)
	Size    int    `json:"n"`
	Seg     string `json:"seg"`          // one | split | lines | bytes
	Close   bool   `json:"cl,omitempty"` // Connection: close
	// audit extensions
	Path     string `json:"path,omitempty"`  // request-target path+query instead of the default ("EMPTY": none at all, absolute-form only; "*": asterisk-form)
	HostPort string `json:"hp,omitempty"`    // authority of an absolute-form target instead of the bare host (may carry a port or userinfo)
	CloseTok string `json:"cltok,omitempty"` // other spellings of the client's wish to close: "Close", "keep-alive, close"
	// round 8: the request head (request line to blank line) is padded with X-Blk fields to exactly HdrBlock bytes;
	// HdrShape: f4k (4 KiB lines, one repeated name) | f64k (64 KiB lines, distinct names) | one (a single field)
	HdrBlock int    `json:"hb,omitempty"`
	HdrShape string `json:"hbs,omitempty"`
}

type RespSpec struct {
	Status   int    `json:"st"`
	Interim  bool   `json:"i,omitempty"` // a 103 interim response first
	Framing  string `json:"f"`           // cl | chunked | chunked2 | close | none (no length, no body) | clhead (Content-Length n, no body) | chunkedhead (Transfer-Encoding: chunked, no body; 304 only)
	Size     int    `json:"n"`
	HSet     int    `json:"h"` // 0 plain | 1 repeated Set-Cookie, empty value, mixed case | 2 Content-Encoding: gzip with a gzip body
	Close    bool   `json:"cl,omitempty"`
	Split    string `json:"split,omitempty"`    // how the origin cuts the response into writes: "" one write | headbody | lines | bytes
	PauseMs  int    `json:"pause_ms,omitempty"` // the origin writes the head and Burst1 body bytes, stays silent this long, then writes the rest
	Burst1   int    `json:"burst1,omitempty"`
	Proto10  string `json:"p10,omitempty"`   // origin answers with HTTP/1.0: "1.0" (and closes) | "1.0ka" (Connection: keep-alive, stays open)
	Interim2 bool   `json:"i2,omitempty"`    // two interim responses (100 Continue, 103) first
	Location string `json:"loc,omitempty"`   // Location header (3xx): must be relayed, never followed
	Early    bool   `json:"early,omitempty"` // the origin answers as soon as it has the request head, never reads the body, holds the connection
	// round 8: response head (status line to blank line) padded with X-Blk fields to exactly HdrBlock bytes
	HdrBlock int    `json:"hb,omitempty"`
	HdrShape string `json:"hbs,omitempty"`
	DelayMs  int    `json:"delay_ms,omitempty"` // the origin stays silent this long before the first byte of its response
	// round 8b: the origin reads the complete request and then closes the connection without a single response
	// byte: "once" (the first arrival of this request only; a later arrival of the same request is answered with
	// this response) | "always" (every arrival)
	NoAnswer string `json:"noans,omitempty"`
	// round 9: the origin writes the complete head and only part of the body it announced, then closes:
	// "b0" (no body byte) | "half" | "m1" (all but the last byte of the message)
	ShortAt string `json:"short,omitempty"`
}

type Exchange struct {
	Req  ReqSpec  `json:"req"`
	Resp RespSpec `json:"resp"`
}

type Scenario struct {
	ID         int          `json:"id"`
	Family     string       `json:"fam"`
	Conns      [][]Exchange `json:"conns"`                // one exchange list per client connection (normally one connection)
	Pipelined  bool         `json:"pipe,omitempty"`       // all requests written before the first response is read
	Mode       string       `json:"mode,omitempty"`       // "" | concurrent | stalled_reader | interleaved | partial_next | idle_timeout | upstream_conn_age | origin_closed_before_answer
	Gaps       []int        `json:"gaps_ms,omitempty"`    // upstream_conn_age: pause before the i-th exchange (exchanges counted across the connections, in order)
	Sched      []int        `json:"sched,omitempty"`      // interleaved: connection index of each step (even step of a connection = send its next request, odd = read and check its response)
	Cut        string       `json:"cut,omitempty"`        // partial_next: where the prefix of request 2 that travels with request 1 ends
	TimeoutMs  int          `json:"timeout_ms,omitempty"` // idle_timeout: proxy.SetTimeout
	GapMs      int          `json:"gap_ms,omitempty"`     // idle_timeout: pause between a response and the next request
	Downstream bool         `json:"downstream,omitempty"` // proxy.SetDownstreamProxy(http://downstream.test:3128): every upstream dial must go there
	No100      bool         `json:"no100,omitempty"`      // the origin never sends "100 Continue" (the transport's ExpectContinueTimeout of 1 s decides)
	AlsoTCP    bool         `json:"tcp,omitempty"`
	BufCap     int          `json:"buf,omitempty"`
}

const originHost = "origin.test"

var reqHeaderPool = [][]h1harness.HeaderField{
	0: {},
	1: {{"X-Multi", "a"}, {"Cookie", "k=1"}, {"X-Multi", "b"}, {"X-Multi", "c"}},
	2: {{"x-mIxEd-CaSe", "v1"}, {"X-MIXED-CASE", "v2"}},
	3: {{"X-Empty", ""}, {"X-After", "z"}},
	4: {{"X-Big", strings.Repeat("abcdefgh", 1024)}},
	5: {{"Accept-Encoding", "gzip"}},
	6: {{"Accept-Encoding", "identity"}},
	7: {{"Expect", "100-continue"}},
	8: {{"User-Agent", "c01-client/1.0"}, {"Accept", "text/plain, */*;q=0.1"}, {"X-Custom", "foo, bar"}, {"Accept-Encoding", "br"}},
	// audit extensions
	9:  {{"Range", "bytes=0-9"}, {"If-None-Match", "\"abc\", W/\"d\""}, {"Authorization", "Basic dTpw"}, {"Cookie", "a=1; b=2"}, {"Cookie", "c=3"}},
	10: manyHeaders(100),
	11: {{"X-Ws", "a  b\tc"}, {"X-Semi", ";;;"}, {"X-Quote", "\"q, r\""}, {"X-Utf8", "caf\xc3\xa9"}},
	12: {{"Connection", "X-Hop"}, {"X-Hop", "1"}, {"X-Keep", "2"}},
	13: {{"Content-Type", "multipart/form-data; boundary=xYz"}, {"Content-Language", "en"}, {"Origin", "http://a.example"}, {"Referer", "http://a.example/x?y#z"}},
}

func manyHeaders(n int) []h1harness.HeaderField {
	var out []h1harness.HeaderField
	for i := 0; i < n; i++ {
		out = append(out, h1harness.HeaderField{Name: fmt.Sprintf("X-H-%03d", i), Value: fmt.Sprintf("v%d", i)})
	}
	return out
}

// fillHeaders returns header fields X-Blk... whose lines ("Name: value\r\n") add up to exactly need bytes.
// Every value starts with its index, so a lost, repeated or truncated field changes the multiset of values.
func fillHeaders(shape string, need int) []h1harness.HeaderField {
	line := need
	switch shape {
	case "f4k":
		line = 4096
	case "f64k":
		line = 65536
	}
	var out []h1harness.HeaderField
	for i := 0; need > 0; i++ {
		n := line
		if need-n < 64 { // the last line takes the remainder
			n = need
		}
		name := "X-Blk"
		if shape == "f64k" {
			name = fmt.Sprintf("X-Blk-%04d", i)
		}
		v := make([]byte, n-len(name)-4) // ": " and CRLF
		k := copy(v, fmt.Sprintf("%06d-", i))
		for j := k; j < len(v); j++ {
			v[j] = 'a' + byte((j+i*7)%26)
		}
		out = append(out, h1harness.HeaderField{Name: name, Value: string(v)})
		need -= n
	}
	return out
}

var respHeaderPool = [][]h1harness.HeaderField{
	0: {{"X-Origin", "o"}},
	1: {{"Set-Cookie", "a=1; Path=/"}, {"Set-Cookie", "b=2"}, {"set-cookie", "c=3"}, {"X-Empty", ""}, {"x-lOwEr", "v"}, {"X-Big", strings.Repeat("Z", 8192)}},
	2: {{"Content-Encoding", "gzip"}, {"Vary", "Accept-Encoding"}},
}

func (r ReqSpec) hasAcceptEncoding() bool {
	for _, h := range reqHeaderPool[r.HSet] {
		if strings.EqualFold(h.Name, "Accept-Encoding") {
			return true
		}
	}
	return false
}

func (r ReqSpec) closes() bool { return r.Close || r.Proto == "1.0" || r.CloseTok != "" }

func bodiless(method string, status int) bool {
	return method == "HEAD" || status == 204 || status == 304
}

// closes reports whether the exchange ends the connection according to the statement: either side asked to
// close (Connection: close, HTTP/1.0 without keep-alive) or the origin delimited the body by closing.
func (e Exchange) closes() bool {
	if e.Req.closes() || e.Resp.Close {
		return true
	}
	if e.Resp.Proto10 == "1.0" {
		return true // an HTTP/1.0 response without keep-alive ends the connection
	}
	return e.Resp.Framing == "close" && !bodiless(e.Req.Method, e.Resp.Status)
}

func seed(scID, conn, ex, dir int) uint32 {
	return uint32(scID)*7919 + uint32(conn)*104729 + uint32(ex)*1299709 + uint32(dir)*15485863 + 1
}

func tag(conn, ex int) string { return fmt.Sprintf("c%de%d", conn, ex) }

func pathFor(conn, ex int) string {
	return "/p%2Fq/a;v=1/" + tag(conn, ex) + "?q=1&r=a%20b&q=2"
}

// built request: wire bytes split into segments, plus what the reference model expects the origin to see.
type builtReq struct {
	segs    [][]byte
	target  string                  // expected origin-form target
	headers []h1harness.HeaderField // end-to-end headers the client sent (incl. Host)
	payload []byte
	trailer []h1harness.HeaderField
}

// chunkSizes returns the chunk-size list of a chunked framing kind for an n-byte body.
// Request kinds: ch1 [n], ch2 [1,n-1], chN [1]*n, chT [n]+trailer, ch4k [4096...], chPow [1,2,4,...],
// chEnd1 [n-1,1], chExt [n] with a chunk extension. Response kinds: chunked, chunked2, chunked4k, chunkedPow,
// chunkedEnd1, chunkedExt.
func chunkSizes(kind string, n int) []int {
	if n == 0 {
		return nil
	}
	switch kind {
	case "ch2", "chunked2":
		if n >= 2 {
			return []int{1, n - 1}
		}
	case "chEnd1", "chunkedEnd1":
		if n >= 2 {
			return []int{n - 1, 1}
		}
	case "chN":
		out := make([]int, n)
		for i := range out {
			out[i] = 1
		}
		return out
	case "ch4k", "chunked4k":
		var out []int
		for n > 0 {
			k := 4096
			if n < k {
				k = n
			}
			out = append(out, k)
			n -= k
		}
		return out
	case "chPow", "chunkedPow":
		var out []int
		for k := 1; n > 0; k *= 2 {
			if n < k {
				k = n
			}
			out = append(out, k)
			n -= k
		}
		return out
	}
	return []int{n}
}

func chunkedBody(kind string, p []byte) []byte {
	var body []byte
	for _, k := range chunkSizes(kind, len(p)) {
		if kind == "chExt" || kind == "chunkedExt" {
			body = append(body, fmt.Sprintf("%x;ext=1;q=\"v\"\r\n", k)...)
			body = append(append(body, p[:k]...), '\r', '\n')
		} else {
			body = append(body, chunk(p[:k])...)
		}
		p = p[k:]
	}
	return body
}

func chunk(b []byte) []byte {
	return append(append([]byte(fmt.Sprintf("%x\r\n", len(b))), b...), '\r', '\n')
}

func buildReq(scID, conn, ex int, r ReqSpec) *builtReq {
	path := pathFor(conn, ex)
	if r.Path == "EMPTY" {
		path = ""
	} else if r.Path != "" {
		path = r.Path
	}
	out := &builtReq{target: path}
	if path == "" {
		out.target = "/" // an absolute-form target without a path asks for "/"
	}
	if r.Framing != "none" && r.Framing != "cl0" {
		out.payload = h1harness.Pattern(seed(scID, conn, ex, 0), r.Size)
	}
	var lines []string
	auth := originHost
	if r.HostPort != "" {
		auth = r.HostPort
	}
	hostHdr := auth
	if i := strings.LastIndexByte(hostHdr, '@'); i >= 0 {
		hostHdr = hostHdr[i+1:]
	}
	t := path
	if r.Abs {
		t = "http://" + auth + path
	}
	proto := "HTTP/1.1"
	if strings.HasPrefix(r.Proto, "1.0") {
		proto = "HTTP/1.0"
	}
	lines = append(lines, r.Method+" "+t+" "+proto)
	add := func(n, v string, e2e bool) {
		if v == "" {
			lines = append(lines, n+":")
		} else {
			lines = append(lines, n+": "+v)
		}
		if e2e {
			out.headers = append(out.headers, h1harness.HeaderField{Name: n, Value: v})
		}
	}
	add("Host", hostHdr, true)
	for _, h := range reqHeaderPool[r.HSet] {
		add(h.Name, h.Value, true)
	}
	add("X-Exchange", tag(conn, ex), true)
	switch {
	case r.CloseTok != "":
		add("Connection", r.CloseTok, false)
	case r.Close:
		add("Connection", "close", false)
	case r.Proto == "1.0ka":
		add("Connection", "keep-alive", false)
	}
	var body []byte
	switch r.Framing {
	case "none":
	case "cl0":
		add("Content-Length", "0", false)
	case "cl":
		add("Content-Length", strconv.Itoa(len(out.payload)), false)
		body = out.payload
	default:
		add("Transfer-Encoding", "chunked", false)
		if r.Framing == "chT" {
			add("Trailer", "X-Trail", false)
			out.trailer = []h1harness.HeaderField{{Name: "X-Trail", Value: "t-" + tag(conn, ex)}}
		}
		if r.Framing == "chT2" { // two announced trailer fields
			add("Trailer", "X-Checksum, X-Trail-B", false)
			out.trailer = []h1harness.HeaderField{{Name: "X-Checksum", Value: "sum-" + tag(conn, ex)}, {Name: "X-Trail-B", Value: "b, c"}}
		}
		body = chunkedBody(r.Framing, out.payload)
		body = append(body, "0\r\n"...)
		for _, tf := range out.trailer {
			body = append(body, (tf.Name + ": " + tf.Value + "\r\n")...)
		}
		body = append(body, "\r\n"...)
	}
	if r.HdrBlock > 0 {
		cur := 2
		for _, l := range lines {
			cur += len(l) + 2
		}
		for _, f := range fillHeaders(r.HdrShape, r.HdrBlock-cur) {
			add(f.Name, f.Value, true)
		}
	}
	head := []byte(strings.Join(lines, "\r\n") + "\r\n\r\n")
	switch r.Seg {
	case "split":
		out.segs = [][]byte{head, body}
	case "lines":
		for _, l := range lines {
			out.segs = append(out.segs, []byte(l+"\r\n"))
		}
		out.segs = append(out.segs, []byte("\r\n"), body)
	case "bytes":
		all := append(append([]byte{}, head...), body...)
		for i := range all {
			out.segs = append(out.segs, all[i:i+1])
		}
	default:
		out.segs = [][]byte{append(append([]byte{}, head...), body...)}
	}
	return out
}

type builtResp struct {
	wire    []byte
	segs    [][]byte
	pauses  []time.Duration
	status  int
	headers []h1harness.HeaderField // end-to-end headers the origin sent
	body    []byte                  // bytes of the body as the origin sent them (gzip bytes for hset 2)
	clHead  string                  // Content-Length value sent on a bodiless response ("" if none)
	early   bool
	trailer string
	close   bool
}

func gz(b []byte) []byte {
	var buf bytes.Buffer
	w, _ := gzip.NewWriterLevel(&buf, gzip.BestSpeed)
	w.Write(b)
	w.Close()
	return buf.Bytes()
}

func buildResp(scID, conn, ex int, method string, r RespSpec) *builtResp {
	out := &builtResp{status: r.Status, early: r.Early}
	var sb bytes.Buffer
	if r.Interim2 {
		sb.WriteString("HTTP/1.1 100 Continue\r\n\r\n")
	}
	if r.Interim || r.Interim2 {
		sb.WriteString("HTTP/1.1 103 Early Hints\r\nLink: </style.css>; rel=preload\r\n\r\n")
	}
	version := "HTTP/1.1"
	if r.Proto10 != "" {
		version = "HTTP/1.0"
	}
	reason := http.StatusText(r.Status)
	if reason == "" {
		reason = "Custom Reason"
	}
	fmt.Fprintf(&sb, "%s %d %s\r\n", version, r.Status, reason)
	add := func(n, v string, e2e bool) {
		if v == "" {
			sb.WriteString(n + ":\r\n")
		} else {
			sb.WriteString(n + ": " + v + "\r\n")
		}
		if e2e {
			out.headers = append(out.headers, h1harness.HeaderField{Name: n, Value: v})
		}
	}
	add("Date", "Mon, 01 Jan 2024 00:00:00 GMT", true)
	add("Content-Type", "application/octet-stream", true)
	add("X-Exchange", tag(conn, ex), true)
	if r.Location != "" {
		add("Location", r.Location, true)
	}
	switch r.Status {
	case 206:
		add("Content-Range", "bytes 0-9/100", true)
	case 401:
		add("WWW-Authenticate", "Basic realm=\"x\"", true)
	case 429, 503:
		add("Retry-After", "120", true)
	}
	if r.Proto10 == "1.0ka" {
		add("Connection", "keep-alive", false)
	}
	if r.Framing == "chunkedT" {
		add("Trailer", "X-Resp-Trail", false)
	}
	for _, h := range respHeaderPool[r.HSet] {
		add(h.Name, h.Value, true)
	}
	payload := h1harness.Pattern(seed(scID, conn, ex, 1), r.Size)
	if r.HSet == 2 {
		payload = gz(payload)
	}
	nobody := bodiless(method, r.Status)
	switch r.Framing {
	case "cl", "clhead":
		add("Content-Length", strconv.Itoa(len(payload)), false)
		if nobody || r.Framing == "clhead" {
			out.clHead = strconv.Itoa(len(payload))
		}
	case "chunked", "chunked2", "chunkedhead", "chunked4k", "chunkedPow", "chunkedEnd1", "chunkedExt", "chunkedT":
		add("Transfer-Encoding", "chunked", false)
	}
	if r.Close {
		add("Connection", "close", false)
		out.close = true
	}
	if r.Proto10 == "1.0" {
		out.close = true
	}
	if r.HdrBlock > 0 {
		for _, f := range fillHeaders(r.HdrShape, r.HdrBlock-sb.Len()-2) {
			add(f.Name, f.Value, true)
		}
	}
	sb.WriteString("\r\n")
	headLen := sb.Len()
	if !nobody && r.Framing != "none" && r.Framing != "clhead" && r.Framing != "chunkedhead" {
		out.body = payload
		switch r.Framing {
		case "cl":
			sb.Write(payload)
		case "close":
			sb.Write(payload)
			out.close = true
		case "chunkedT":
			sb.Write(chunkedBody(r.Framing, payload))
			sb.WriteString("0\r\nX-Resp-Trail: rt-" + tag(conn, ex) + "\r\n\r\n")
			out.trailer = "rt-" + tag(conn, ex)
		case "chunked", "chunked2", "chunked4k", "chunkedPow", "chunkedEnd1", "chunkedExt":
			sb.Write(chunkedBody(r.Framing, payload))
			sb.WriteString("0\r\n\r\n")
		}
	}
	out.wire = sb.Bytes()
	// how the origin cuts the response into write calls
	if r.Burst1 > 0 && headLen+r.Burst1 < len(out.wire) {
		out.segs = [][]byte{out.wire[:headLen+r.Burst1], out.wire[headLen+r.Burst1:]}
		out.pauses = []time.Duration{time.Duration(r.DelayMs) * time.Millisecond, time.Duration(r.PauseMs) * time.Millisecond}
		return out
	}
	if r.DelayMs > 0 {
		defer func() { out.pauses = []time.Duration{time.Duration(r.DelayMs) * time.Millisecond} }()
	}
	switch r.Split {
	case "headbody":
		out.segs = [][]byte{out.wire[:headLen], out.wire[headLen:]}
	case "lines": // one write per line of the head (every header boundary), then the body
		h := out.wire[:headLen]
		for len(h) > 0 {
			i := bytes.Index(h, []byte("\r\n")) + 2
			out.segs = append(out.segs, h[:i])
			h = h[i:]
		}
		out.segs = append(out.segs, out.wire[headLen:])
	case "bytes":
		for i := range out.wire {
			out.segs = append(out.segs, out.wire[i:i+1])
		}
	default:
		out.segs = [][]byte{out.wire}
	}
	return out
}

// ---------------------------------------------------------------------------------------------------
// enumeration

var allMethods = []string{"GET", "HEAD", "POST", "PUT", "DELETE", "OPTIONS", "PATCH"}

type bodyVariant struct {
	framing string
	size    int
}

// moreChunkLists (thorough) adds the chunk-size lists [4096...], [1,2,4,...], [n-1,1] and chunk extensions.
var moreChunkLists bool

func bodyVariants(sizes []int) []bodyVariant {
	out := []bodyVariant{{"none", 0}, {"cl0", 0}, {"ch1", 0}, {"chT", 0}}
	for _, n := range sizes {
		if n == 0 {
			continue
		}
		out = append(out, bodyVariant{"cl", n}, bodyVariant{"ch1", n})
		if n >= 2 {
			out = append(out, bodyVariant{"ch2", n})
		}
		out = append(out, bodyVariant{"chT", n})
		if moreChunkLists && n >= 2 {
			out = append(out, bodyVariant{"ch4k", n}, bodyVariant{"chPow", n}, bodyVariant{"chEnd1", n}, bodyVariant{"chExt", n})
		}
	}
	out = append(out, bodyVariant{"chN", 3}, bodyVariant{"chN", 17})
	return out
}

func segsFor(b bodyVariant, hset int) []string {
	s := []string{"one"}
	if b.framing != "none" && b.framing != "cl0" {
		s = append(s, "split")
	}
	s = append(s, "lines")
	if b.size <= 17 && hset != 4 {
		s = append(s, "bytes")
	}
	return s
}

func respVariants(sizes []int) []RespSpec {
	var out []RespSpec
	for _, st := range []int{200, 201, 404, 500} {
		for _, hs := range []int{0, 1, 2} {
			for _, n := range sizes {
				for _, cl := range []bool{false, true} {
					out = append(out, RespSpec{Status: st, Framing: "cl", Size: n, HSet: hs, Close: cl})
					out = append(out, RespSpec{Status: st, Framing: "chunked", Size: n, HSet: hs, Close: cl})
					if n >= 2 {
						out = append(out, RespSpec{Status: st, Framing: "chunked2", Size: n, HSet: hs, Close: cl})
					}
				}
				out = append(out, RespSpec{Status: st, Framing: "close", Size: n, HSet: hs})
				if moreChunkLists && n >= 2 {
					for _, f := range []string{"chunked4k", "chunkedPow", "chunkedEnd1", "chunkedExt"} {
						out = append(out, RespSpec{Status: st, Framing: f, Size: n, HSet: hs})
					}
				}
			}
		}
	}
	for _, hs := range []int{0, 1} {
		for _, cl := range []bool{false, true} {
			out = append(out, RespSpec{Status: 204, Framing: "none", HSet: hs, Close: cl})
			out = append(out, RespSpec{Status: 304, Framing: "none", HSet: hs, Close: cl})
			out = append(out, RespSpec{Status: 304, Framing: "clhead", Size: 4097, HSet: hs, Close: cl})
			out = append(out, RespSpec{Status: 304, Framing: "chunkedhead", HSet: hs, Close: cl})
		}
	}
	out = append(out,
		RespSpec{Status: 200, Interim: true, Framing: "cl", Size: 1},
		RespSpec{Status: 200, Interim: true, Framing: "chunked", Size: 4097},
		RespSpec{Status: 204, Interim: true, Framing: "none"},
		RespSpec{Status: 200, Interim: true, Framing: "close", Size: 4097},
	)
	return out
}

var defaultResp = RespSpec{Status: 200, Framing: "cl", Size: 1}

// reduced alphabets for sequences and the cross family
var redReq = []ReqSpec{
	{Method: "GET", Abs: true, Proto: "1.1", Framing: "none", Seg: "one"},
	{Method: "POST", Abs: false, Proto: "1.1", HSet: 1, Framing: "cl", Size: 4097, Seg: "split"},
	{Method: "PUT", Abs: true, Proto: "1.1", Framing: "chT", Size: 4097, Seg: "one"},
	{Method: "HEAD", Abs: true, Proto: "1.1", Framing: "none", Seg: "one"},
	{Method: "GET", Abs: false, Proto: "1.1", HSet: 5, Framing: "none", Seg: "one", Close: true},
	{Method: "POST", Abs: true, Proto: "1.0ka", Framing: "cl", Size: 1, Seg: "one"},
}

var redResp = []RespSpec{
	{Status: 200, Framing: "cl", Size: 4097, HSet: 1},
	{Status: 200, Framing: "chunked2", Size: 4097},
	{Status: 200, Framing: "close", Size: 1},
	{Status: 204, Framing: "none"},
	{Status: 404, Framing: "cl", Size: 0, Close: true},
}

// wider single-exchange alphabets for the cross family (every method, framing, header set and response
// framing appears at least once; the product covers all pairs between the request and the response group)
var crossReq = []ReqSpec{
	{Method: "GET", Abs: true, Proto: "1.1", HSet: 0, Framing: "none", Seg: "one"},
	{Method: "GET", Abs: false, Proto: "1.1", HSet: 5, Framing: "none", Seg: "lines"},
	{Method: "GET", Abs: true, Proto: "1.0", HSet: 6, Framing: "none", Seg: "one"},
	{Method: "HEAD", Abs: false, Proto: "1.1", HSet: 1, Framing: "none", Seg: "one"},
	{Method: "HEAD", Abs: true, Proto: "1.0ka", HSet: 0, Framing: "none", Seg: "bytes"},
	{Method: "POST", Abs: true, Proto: "1.1", HSet: 7, Framing: "cl", Size: 4097, Seg: "split"},
	{Method: "POST", Abs: false, Proto: "1.1", HSet: 4, Framing: "ch2", Size: 4097, Seg: "one"},
	{Method: "PUT", Abs: true, Proto: "1.1", HSet: 2, Framing: "chT", Size: 1, Seg: "bytes"},
	{Method: "PATCH", Abs: false, Proto: "1.1", HSet: 3, Framing: "chN", Size: 17, Seg: "split"},
	{Method: "DELETE", Abs: true, Proto: "1.1", HSet: 8, Framing: "cl0", Seg: "one", Close: true},
	{Method: "OPTIONS", Abs: false, Proto: "1.0ka", HSet: 0, Framing: "cl", Size: 1, Seg: "one"},
	{Method: "PUT", Abs: false, Proto: "1.0", HSet: 0, Framing: "cl", Size: 4097, Seg: "split"},
}

// gen enumerates scenarios. Only the scenarios selected by keep are materialised (a worker keeps its own
// share, the parent none), all of them are counted and deduplicated.
type gen struct {
	n        int
	kept     map[int]*Scenario
	keep     func(id int) bool
	thorough bool
	seen     map[[20]byte]struct{}
	fam      map[string]int
}

func (g *gen) add(s Scenario) {
	// normalise: drop exchanges after the first one that closes the connection, then deduplicate
	for ci, exs := range s.Conns {
		for i, e := range exs {
			if e.closes() && i < len(exs)-1 {
				s.Conns[ci] = append([]Exchange(nil), exs[:i+1]...)
				break
			}
		}
	}
	s.ID = 0
	kb, _ := json.Marshal(s)
	k := sha1.Sum(kb)
	if _, dup := g.seen[k]; dup {
		return
	}
	g.seen[k] = struct{}{}
	s.ID = g.n
	g.n++
	g.fam[s.Family]++
	if g.keep == nil || !g.keep(s.ID) {
		return
	}
	// loopback-TCP validation subset: quick: every 11th scenario of the single-exchange families and every
	// 23rd sequence; thorough: every 53rd and every 307th; plus all of G
	i := s.ID
	switch {
	case s.Family == "G_gzip_seq":
		s.AlsoTCP = true
	case s.Family == "HB_header_block":
		// the TCP re-run recognises a stall by a quiet period (wall clock): keep it to heads of at most 3 MiB
		big := 0
		for _, e := range s.Conns[0] {
			big = max(big, e.Req.HdrBlock, e.Resp.HdrBlock)
		}
		s.AlsoTCP = big <= 3<<20 && ((g.thorough && i%53 == 0) || (!g.thorough && i%11 == 0))
	case s.Mode == modeShortBody:
		s.AlsoTCP = false // judged on the in-memory connections only (no quiet period involved)
	case s.Mode == modeNoAnswer:
		// over TCP only where the outcome cannot depend on whether the transport found the pooled upstream
		// connection in time (a request that may never be replayed)
		_, x := noAnswerExchange(&s)
		s.AlsoTCP = !replayPermitted(x.Req, true) && i%7 == 0
	case s.Mode != "" || s.Family == "E_large" || s.Family == "H_early_response" || s.Family == "T_idle_timeout" || s.Family == "N_expect_without_100" || s.Family == "R_paused_bursts":
	case g.thorough && strings.HasPrefix(s.Family, "D"):
		s.AlsoTCP = i%307 == 0
	case g.thorough: // sparser than quick: loopback sockets linger in TIME_WAIT and ephemeral ports are finite
		s.AlsoTCP = i%53 == 0
	case strings.HasPrefix(s.Family, "D"):
		s.AlsoTCP = i%23 == 0
	default:
		s.AlsoTCP = i%11 == 0
	}
	for ci := range s.Conns { // the exchange slices may be shared with the enumerator: copy
		s.Conns[ci] = append([]Exchange(nil), s.Conns[ci]...)
	}
	s.Conns = append([][]Exchange(nil), s.Conns...)
	s.Sched = append([]int(nil), s.Sched...)
	g.kept[s.ID] = &s
}

func single(fam string, r ReqSpec, p RespSpec) Scenario {
	return Scenario{Family: fam, Conns: [][]Exchange{{{Req: r, Resp: p}}}}
}

func scenarios(tier string, keep func(id int) bool) (map[int]*Scenario, int, map[string]int) {
	g := &gen{seen: map[[20]byte]struct{}{}, fam: map[string]int{}, kept: map[int]*Scenario{}, keep: keep, thorough: tier == "thorough"}
	thorough := tier == "thorough"
	moreChunkLists = thorough
	sizes := []int{0, 1, 4097}
	if thorough {
		sizes = []int{0, 1, 4095, 4096, 4097, 8191, 8192, 8193, 32767, 32768, 32769, 65535, 65536, 65537}
	}
	// Family A (request body relay): method x target form x {no Expect, Expect: 100-continue} x body framing x
	// size x write segmentation; response fixed (200, Content-Length 1).
	aHS, aProto := []int{0, 7}, []string{"1.1"}
	if tier == "thorough" {
		aHS, aProto = []int{0, 1, 4, 7}, []string{"1.1", "1.0ka"}
	}
	for _, m := range allMethods {
		for _, abs := range []bool{true, false} {
			for _, hs := range aHS {
				for _, pr := range aProto {
					for _, b := range bodyVariants(sizes) {
						if pr == "1.0ka" && strings.HasPrefix(b.framing, "ch") {
							continue // chunked request bodies do not exist in HTTP/1.0
						}
						for _, sg := range segsFor(b, hs) {
							g.add(single("A_reqbody", ReqSpec{Method: m, Abs: abs, Proto: pr, HSet: hs, Framing: b.framing, Size: b.size, Seg: sg}, defaultResp))
						}
					}
				}
			}
		}
	}
	// Family B (request head relay): method x target form x header pool x protocol version x Connection: close
	// x {no body, 1-byte body}; response fixed.
	for _, m := range allMethods {
		for _, abs := range []bool{true, false} {
			for hs := range reqHeaderPool {
				for _, pr := range []string{"1.1", "1.0", "1.0ka"} {
					for _, cl := range []bool{false, true} {
						if cl && pr == "1.0ka" {
							continue
						}
						for _, b := range []bodyVariant{{"none", 0}, {"cl", 1}} {
							g.add(single("B_reqhead", ReqSpec{Method: m, Abs: abs, Proto: pr, HSet: hs, Framing: b.framing, Size: b.size, Seg: "one", Close: cl}, defaultResp))
						}
					}
				}
			}
		}
	}
	// Family C (response relay): method {GET, HEAD, POST} x client Accept-Encoding {absent, gzip, identity} x
	// client protocol x every origin response shape.
	cMethods := []string{"GET", "HEAD", "POST"}
	if tier == "thorough" {
		cMethods = allMethods
	}
	for _, m := range cMethods {
		for _, hs := range []int{0, 5, 6} {
			for _, pr := range []string{"1.1", "1.0", "1.0ka"} {
				for _, p := range respVariants(sizes) {
					r := ReqSpec{Method: m, Abs: true, Proto: pr, HSet: hs, Framing: "none", Seg: "one"}
					if m == "POST" || m == "PUT" || m == "PATCH" {
						r.Framing, r.Size = "cl", 1
					}
					g.add(single("C_resp", r, p))
				}
			}
		}
	}
	// Family X (cross): 12 request shapes x all response shapes over the reduced size set.
	for _, r := range crossReq {
		for _, p := range respVariants(sizes) {
			g.add(single("X_cross", r, p))
		}
	}
	// Family D (sequences): all sequences of length 2 (quick) / 2 and 3 (thorough) over the 6x5 reduced
	// alphabet, sequential and pipelined.
	var alpha []Exchange
	for _, r := range redReq {
		for _, p := range redResp {
			alpha = append(alpha, Exchange{r, p})
		}
	}
	maxLen := 2
	if tier == "thorough" {
		maxLen = 3
	}
	for _, pipe := range []bool{false, true} {
		fam := "D_seq"
		if pipe {
			fam = "D_seq_pipelined"
		}
		lib.Sequences(len(alpha), maxLen, func(seq []int) {
			if len(seq) < 2 {
				return
			}
			var exs []Exchange
			for _, i := range seq {
				exs = append(exs, alpha[i])
			}
			g.add(Scenario{Family: fam, Conns: [][]Exchange{exs}, Pipelined: pipe})
		})
	}
	// Family D2 (thorough): all sequences of length 2 over a wider 8x8 alphabet (adds Expect: 100-continue, an
	// implicit HTTP/1.0 close, gzip, 304 with Content-Length, 1xx-then-chunked)
	if thorough {
		walpha := wideAlphabet()
		for _, pipe := range []bool{false, true} {
			fam := "D2_seq_wide"
			if pipe {
				fam = "D2_seq_wide_pipelined"
			}
			for _, a := range walpha {
				for _, b := range walpha {
					g.add(Scenario{Family: fam, Conns: [][]Exchange{{a, b}}, Pipelined: pipe})
				}
			}
		}
	}
	// Family G (gzip on a kept-alive connection followed by another exchange; the suspected defect's habitat)
	for _, hs := range []int{0, 5} {
		for _, f := range []string{"cl", "chunked"} {
			for _, n := range []int{1, 4097} {
				first := Exchange{ReqSpec{Method: "GET", Abs: true, Proto: "1.1", HSet: hs, Framing: "none", Seg: "one"}, RespSpec{Status: 200, Framing: f, Size: n, HSet: 2}}
				for _, pipe := range []bool{false, true} {
					g.add(Scenario{Family: "G_gzip_seq", Conns: [][]Exchange{{first, alpha[0]}}, Pipelined: pipe})
				}
			}
		}
	}
	// Family H (origin answers after the head and never reads the request body; the body is larger than all
	// buffers, so the proxy itself has to consume the rest of it to keep the client connection in frame)
	for _, m := range []string{"POST", "PUT"} {
		for _, f := range []string{"cl", "ch2", "chT"} {
			for _, st := range []int{200, 404} {
				for _, follow := range []bool{false, true} {
					e := Exchange{ReqSpec{Method: m, Abs: true, Proto: "1.1", Framing: f, Size: 300001, Seg: "split"}, RespSpec{Status: st, Framing: "cl", Size: 17, Early: true}}
					exs := []Exchange{e}
					if follow {
						exs = append(exs, alpha[1])
					}
					g.add(Scenario{Family: "H_early_response", Conns: [][]Exchange{exs}, BufCap: 8 << 10})
				}
			}
		}
	}
	// Family E (large bodies)
	large := []int{300001}
	if tier == "thorough" {
		large = []int{300001, 1<<20 + 3, 4 << 20}
	}
	for _, n := range large {
		for _, m := range []string{"POST", "PUT"} {
			for _, f := range []string{"cl", "ch1", "ch2", "chT"} {
				g.add(single("E_large", ReqSpec{Method: m, Abs: true, Proto: "1.1", Framing: f, Size: n, Seg: "split"}, defaultResp))
			}
		}
		for _, f := range []string{"cl", "chunked", "chunked2", "close"} {
			for _, hs := range []int{0, 2} {
				r := ReqSpec{Method: "GET", Abs: true, Proto: "1.1", HSet: 5, Framing: "none", Seg: "one"}
				g.add(single("E_large", r, RespSpec{Status: 200, Framing: f, Size: n, HSet: hs}))
			}
		}
		if n <= 1<<20+3 {
			e1 := Exchange{ReqSpec{Method: "POST", Abs: true, Proto: "1.1", Framing: "cl", Size: n, Seg: "one"}, RespSpec{Status: 200, Framing: "chunked", Size: n}}
			e2 := Exchange{ReqSpec{Method: "PUT", Abs: false, Proto: "1.1", Framing: "ch2", Size: n, Seg: "one"}, RespSpec{Status: 200, Framing: "cl", Size: n}}
			g.add(Scenario{Family: "E_large", Conns: [][]Exchange{{e1, e2}}})
			g.add(Scenario{Family: "E_large", Conns: [][]Exchange{{e2, e1, e2}}})
		}
	}
	// Family F (several client connections on one proxy: shared-state interference)
	fsizes := []int{4097, 32769, 300001}
	if tier == "thorough" {
		fsizes = append(fsizes, 1<<20+3)
	}
	for _, n := range fsizes {
		for _, rf := range []string{"cl", "ch2"} {
			for _, pf := range []string{"cl", "chunked", "close"} {
				var conns [][]Exchange
				for c := 0; c < 3; c++ {
					e := Exchange{ReqSpec{Method: "POST", Abs: c%2 == 0, Proto: "1.1", Framing: rf, Size: n + c, Seg: "split"}, RespSpec{Status: 200, Framing: pf, Size: n + 2*c}}
					conns = append(conns, []Exchange{e, e})
				}
				g.add(Scenario{Family: "F_concurrent", Conns: conns, Mode: "concurrent"})
			}
		}
		for _, pf := range []string{"cl", "chunked"} {
			a := Exchange{ReqSpec{Method: "GET", Abs: true, Proto: "1.1", Framing: "none", Seg: "one"}, RespSpec{Status: 200, Framing: pf, Size: n*4 + 1}}
			b := Exchange{ReqSpec{Method: "POST", Abs: true, Proto: "1.1", Framing: "cl", Size: n, Seg: "one"}, RespSpec{Status: 200, Framing: pf, Size: n + 7}}
			g.add(Scenario{Family: "F_stalled_reader", Conns: [][]Exchange{{a}, {b, b}}, Mode: "stalled_reader", BufCap: 8 << 10})
		}
	}
	// Family P (a prefix of the next request arrives together with a request): the client writes request 1 and
	// a prefix of request 2 in ONE write, must then receive response 1 (it does not send the rest before),
	// sends the rest and must receive response 2.
	for _, a := range alpha {
		if a.closes() {
			continue
		}
		for _, b := range alpha {
			for _, cut := range []string{"one_byte", "in_request_line", "after_request_line", "in_headers", "before_last_lf", "after_blank_line", "in_body"} {
				if (cut == "after_blank_line" || cut == "in_body") && (b.Req.Framing == "none" || b.Req.Size < 2) {
					continue
				}
				a.Req.Seg, b.Req.Seg = "one", "one"
				g.add(Scenario{Family: "P_partial_next_request", Conns: [][]Exchange{{a, b}}, Mode: "partial_next", Cut: cut})
			}
		}
	}
	// Family T (the proxy's timeout is an idle timeout per request, not a cap on the connection's lifetime):
	// SetTimeout(T), four requests on one connection separated by gaps g < T/2 with 3g > T. Wall-clock
	// dependent: a run in which a measured gap reached T/2 is counted as inconclusive, not judged.
	for _, tg := range [][2]int{{3000, 1200}, {2000, 800}} {
		e := alpha[0]
		g.add(Scenario{Family: "T_idle_timeout", Conns: [][]Exchange{{e, alpha[5], e, alpha[10]}}, Mode: "idle_timeout", TimeoutMs: tg[0], GapMs: tg[1]})
	}
	auditFamilies(g, alpha, thorough)
	if thorough {
		deepFamilies(g, alpha)
	}
	round8Families(g, alpha, thorough)
	round8bFamilies(g)
	return g.kept, g.n, g.fam
}

// modeNoAnswer: scenarios in which the origin reads one complete request and closes the connection instead of answering.
const modeNoAnswer = "origin_closed_before_answer"

// noAnswerMethods: the seven methods of the other families plus TRACE (the fourth method net/http calls idempotent).
var noAnswerMethods = []string{"GET", "HEAD", "POST", "PUT", "DELETE", "PATCH", "OPTIONS", "TRACE"}

// replayPermitted is the reference model of "may this request reach the origin a second time": the statement
// says one-to-one; the only exception is the documented behaviour of the net/http Transport the proxy is built
// on ("Transport only retries a request upon encountering a network error if the connection has already been
// used successfully and if the request is idempotent and either has no body or has its Request.GetBody defined.
// HTTP requests are considered idempotent if they have HTTP methods GET, HEAD, OPTIONS, or TRACE; or if their
// Header map contains an Idempotency-Key or X-Idempotency-Key entry"). A request read from a client connection
// never has GetBody; "no body" is what net/http's server-side reader calls no body: no framing at all or
// Content-Length: 0 (an empty chunked body is a body). No header set of this family carries an idempotency key.
func replayPermitted(r ReqSpec, onReusedUpstreamConn bool) bool {
	if !onReusedUpstreamConn {
		return false
	}
	switch r.Method {
	case "GET", "HEAD", "OPTIONS", "TRACE":
		return r.Framing == "none" || r.Framing == "cl0"
	}
	return false
}

// round8bFamilies (appended last; the ids of all earlier scenarios are unchanged; identical in both tiers):
//
// OC_origin_closes_before_answer: the origin reads ONE complete request and closes the connection without a
// response byte. Request: 8 methods x {no framing, Content-Length: 0, empty chunked body, 1-byte body} x target
// form {absolute, origin-form}; the upstream connection it travels on: fresh (first exchange on the proxy) |
// reused (an ordinary exchange precedes it on the same client connection) | reused by the next client connection
// (an ordinary exchange on a first client connection, which the client then closes); a second arrival of the
// same request at the origin is {answered, closed again}. An ordinary exchange (POST with a body) and a probe
// follow on the same client connection. Oracle: the origin log shows the request once - twice at most where
// replayPermitted says so, judged on what the origin observed (the first arrival was not the first request of
// its origin connection); the client receives exactly one complete, well-formed response: the origin's answer
// if an arrival was answered, otherwise an answer of the proxy's own with a 5xx status; the following exchange
// and the probe are served as usual.
func round8bFamilies(g *gen) {
	shortBodyFamilies(g)
	before := Exchange{ReqSpec{Method: "GET", Abs: true, Proto: "1.1", Framing: "none", Seg: "one"}, RespSpec{Status: 200, Framing: "cl", Size: 17}}
	after := Exchange{ReqSpec{Method: "POST", Abs: true, Proto: "1.1", Framing: "cl", Size: 4097, Seg: "split"}, RespSpec{Status: 201, Framing: "chunked", Size: 4097}}
	for _, m := range noAnswerMethods {
		for _, b := range []bodyVariant{{"none", 0}, {"cl0", 0}, {"ch1", 0}, {"cl", 1}} {
			for _, abs := range []bool{true, false} {
				for _, again := range []string{"once", "always"} {
					x := Exchange{ReqSpec{Method: m, Abs: abs, Proto: "1.1", Framing: b.framing, Size: b.size, Seg: "one"}, RespSpec{Status: 200, Framing: "cl", Size: 33, NoAnswer: again}}
					for _, conns := range [][][]Exchange{{{x, after}}, {{before, x, after}}, {{before}, {x, after}}} {
						g.add(Scenario{Family: "OC_origin_closes_before_answer", Conns: conns, Mode: modeNoAnswer})
					}
				}
			}
		}
	}
}

// connection-age family: proxy timeout, nominal gap between exchanges, nominal duration of a slow exchange (ms)
const (
	ageTimeoutMs = 3000
	ageGapMs     = 700
	ageSlowMs    = 1200
)

// round8Families (appended last, so the ids of all earlier scenarios are unchanged):
//
// HB_header_block: request and response heads whose size sits at net/http's header-size constants
// (http.DefaultMaxHeaderBytes = 1 MiB, just below / at / just above; several MiB, below the Transport's default
// response-header cap of 10 MiB) x the shape of the header set (4 KiB lines of one repeated name, 64 KiB lines of
// distinct names, a single field) x request / response shapes x position on the connection (alone, first,
// second, pipelined). Every field value must arrive; the bodies after the big head must be intact; the
// connection must stay usable.
//
// L_upstream_conn_age: SetTimeout(T = 3 s) with the dial function installed through SetDial; every sequence of
// 2..3 (thorough: 2..4) exchanges whose individual durations (0 or 1.2 s of origin silence, before the response
// head or in the middle of its body) and idle gaps (0 or 0.7 s) all stay below T/2 but add up to more than T,
// on one client connection or split over two consecutive client connections (same pooled upstream connection),
// with replayable (GET) and non-replayable (POST, PUT) requests. Real time: a run in which a measured gap or
// exchange duration reached T/2 is counted as inconclusive and not judged.
func round8Families(g *gen, alpha []Exchange, thorough bool) {
	sizes := []int{1<<20 - 4096, 1<<20 + 4096, 3 << 20}
	if thorough {
		sizes = []int{1<<20 - 4096, 1<<20 - 1, 1 << 20, 1<<20 + 1, 1<<20 + 4096, 2 << 20, 3 << 20, 6 << 20, 9 << 20}
	}
	type rp struct {
		r ReqSpec
		p RespSpec
	}
	get := ReqSpec{Method: "GET", Abs: true, Proto: "1.1", Framing: "none", Seg: "one"}
	post := ReqSpec{Method: "POST", Abs: true, Proto: "1.1", Framing: "cl", Size: 4097, Seg: "split"}
	head := ReqSpec{Method: "HEAD", Abs: true, Proto: "1.1", Framing: "none", Seg: "one"}
	put := ReqSpec{Method: "PUT", Abs: false, Proto: "1.1", Framing: "ch2", Size: 4097, Seg: "split"}
	respSide := []rp{
		{get, RespSpec{Status: 200, Framing: "cl", Size: 4097}},
		{get, RespSpec{Status: 200, Framing: "chunked", Size: 4097}},
		{get, RespSpec{Status: 200, Framing: "close", Size: 4097}},
		{post, RespSpec{Status: 200, Framing: "cl", Size: 4097}},
		{head, RespSpec{Status: 200, Framing: "cl", Size: 4097}},
	}
	reqSide := []rp{{get, defaultResp}, {post, defaultResp}, {put, defaultResp}, {head, defaultResp}}
	if thorough {
		respSide = append(respSide,
			rp{post, RespSpec{Status: 200, Framing: "chunked2", Size: 4097}},
			rp{post, RespSpec{Status: 404, Framing: "close", Size: 4097}},
			rp{get, RespSpec{Status: 404, Framing: "cl", Size: 0}},
			rp{get, RespSpec{Status: 204, Framing: "none"}},
			rp{get, RespSpec{Status: 200, Framing: "cl", Size: 4097, Close: true}})
		getO, postO := get, post
		getO.Abs, postO.Abs = false, false
		post10 := post
		post10.Proto = "1.0ka"
		reqSide = append(reqSide, rp{getO, defaultResp}, rp{postO, defaultResp}, rp{post10, defaultResp},
			rp{ReqSpec{Method: "PUT", Abs: true, Proto: "1.1", Framing: "chT", Size: 4097, Seg: "one"}, defaultResp})
	}
	positions := func(e Exchange) {
		g.add(Scenario{Family: "HB_header_block", Conns: [][]Exchange{{e}}})
		g.add(Scenario{Family: "HB_header_block", Conns: [][]Exchange{{e, alpha[1]}}})
		g.add(Scenario{Family: "HB_header_block", Conns: [][]Exchange{{alpha[5], e}}})
		g.add(Scenario{Family: "HB_header_block", Conns: [][]Exchange{{e, alpha[5]}}, Pipelined: true})
		if thorough {
			g.add(Scenario{Family: "HB_header_block", Conns: [][]Exchange{{alpha[5], e}}, Pipelined: true})
			g.add(Scenario{Family: "HB_header_block", Conns: [][]Exchange{{e, e}}})
		}
	}
	for _, n := range sizes {
		for _, shape := range []string{"f4k", "f64k", "one"} {
			for _, v := range respSide {
				v.p.HdrBlock, v.p.HdrShape = n, shape
				positions(Exchange{v.r, v.p})
			}
			for _, v := range reqSide {
				v.r.HdrBlock, v.r.HdrShape = n, shape
				positions(Exchange{v.r, v.p})
			}
		}
	}
	if thorough { // both directions big in one exchange
		for _, n := range []int{1<<20 + 4096, 3 << 20} {
			for _, shape := range []string{"f4k", "one"} {
				r, p := post, RespSpec{Status: 200, Framing: "chunked", Size: 4097, HdrBlock: n, HdrShape: shape}
				r.HdrBlock, r.HdrShape = n, shape
				positions(Exchange{r, p})
			}
		}
	}

	// L: age of the reused upstream connection
	maxLen := 3
	reqKinds := []ReqSpec{post, get}
	if thorough {
		maxLen = 4
		reqKinds = append(reqKinds, ReqSpec{Method: "PUT", Abs: true, Proto: "1.1", Framing: "chT", Size: 4097, Seg: "one"})
	}
	for n := 2; n <= maxLen; n++ {
		for bits := 0; bits < 1<<(2*n-1); bits++ { // bit 2i: exchange i is slow; bit 2i-1: a gap precedes exchange i
			total, gaps, slow := 0, make([]int, n), make([]bool, n)
			for i := 0; i < n; i++ {
				if bits>>(2*i)&1 == 1 {
					slow[i] = true
					total += ageSlowMs
				}
				if i > 0 && bits>>(2*i-1)&1 == 1 {
					gaps[i] = ageGapMs
					total += ageGapMs
				}
			}
			if total <= ageTimeoutMs {
				continue // a connection that never gets as old as the timeout: the ordinary sequence families
			}
			for ri, r := range reqKinds {
				for _, kind := range []string{"head", "body"} {
					if !thorough && ri > 0 && kind == "body" {
						continue
					}
					exs := make([]Exchange, n)
					for i := range exs {
						p := RespSpec{Status: 200, Framing: "cl", Size: 5000}
						if kind == "body" && i%2 == 1 {
							p.Framing = "chunked"
						}
						if slow[i] && kind == "head" {
							p.DelayMs = ageSlowMs
						} else if slow[i] {
							p.PauseMs, p.Burst1 = ageSlowMs, 1000
						}
						exs[i] = Exchange{r, p}
					}
					g.add(Scenario{Family: "L_upstream_conn_age", Conns: [][]Exchange{exs}, Mode: "upstream_conn_age", TimeoutMs: ageTimeoutMs, Gaps: gaps})
					// the same timeline with the client reconnecting after exchange k (the upstream connection is pooled)
					for k := 1; k < n; k++ {
						if ri > 0 || kind == "body" || (!thorough && k > 1) {
							continue
						}
						g.add(Scenario{Family: "L_upstream_conn_age", Conns: [][]Exchange{exs[:k], exs[k:]}, Mode: "upstream_conn_age", TimeoutMs: ageTimeoutMs, Gaps: gaps})
					}
				}
			}
		}
	}
}

// request-target shapes (path+query as the client writes it; the origin must see exactly this, "/" for none)
var targetShapes = []string{
	"EMPTY", "/", "/?", "/p?", "/p??x", "//a//b", "/a/../b/./c", "/a/b/", "/%2e%2e/x", "/a%20b", "/caf%C3%A9", "/%C3%A9%2F%3F%23",
	"/a+b?c+d=e+f", "/p?q=%26%3D&r", "/p;params?x;y", "/p?a=http://x/y?z", "/:colon/@at", "/p?%zz", "/~tilde/!$&'()*,=", "/" + strings.Repeat("x", 8000),
	"/p?" + strings.Repeat("q=1&", 2000),
}

// auditFamilies: families added by the audit of the check (quick: reduced, thorough: full).
func auditFamilies(g *gen, alpha []Exchange, thorough bool) {
	get := ReqSpec{Method: "GET", Abs: true, Proto: "1.1", Framing: "none", Seg: "one"}
	// U: request-target shapes x target form x method (incl. extension methods and OPTIONS *)
	methods := []string{"GET", "POST"}
	if thorough {
		methods = []string{"GET", "HEAD", "POST", "DELETE", "OPTIONS"}
	}
	for _, shape := range targetShapes {
		for _, abs := range []bool{true, false} {
			if shape == "EMPTY" && !abs {
				continue
			}
			for _, m := range methods {
				r := ReqSpec{Method: m, Abs: abs, Proto: "1.1", Framing: "none", Seg: "one", Path: shape}
				if m == "POST" {
					r.Framing, r.Size = "cl", 1
				}
				g.add(single("U_target_shapes", r, defaultResp))
			}
		}
	}
	for _, m := range []string{"PROPFIND", "TRACE", "M-SEARCH", "get", "PURGE", "QUERY", "LINK"} {
		for _, abs := range []bool{true, false} {
			for _, b := range []bodyVariant{{"none", 0}, {"cl", 17}, {"ch2", 17}} {
				g.add(single("U_extension_methods", ReqSpec{Method: m, Abs: abs, Proto: "1.1", Framing: b.framing, Size: b.size, Seg: "one"}, defaultResp))
			}
		}
	}
	g.add(single("U_target_shapes", ReqSpec{Method: "OPTIONS", Proto: "1.1", Framing: "none", Seg: "one", Path: "*"}, defaultResp))
	for _, hp := range []string{originHost + ":80", "user:pw@" + originHost, "user@" + originHost + ":80"} {
		for _, m := range []string{"GET", "POST"} {
			r := ReqSpec{Method: m, Abs: true, Proto: "1.1", Framing: "none", Seg: "one", HostPort: hp}
			g.add(single("U_authority_shapes", r, defaultResp))
		}
	}
	// K: other spellings of the client's wish to close
	for _, tok := range []string{"Close", "CLOSE", "keep-alive, close", "close, X-Foo"} {
		for _, pr := range []string{"1.1", "1.0"} {
			for _, b := range []bodyVariant{{"none", 0}, {"cl", 4097}} {
				r := ReqSpec{Method: "POST", Abs: true, Proto: pr, Framing: b.framing, Size: b.size, Seg: "one", CloseTok: tok}
				g.add(single("K_close_spellings", r, defaultResp))
				g.add(Scenario{Family: "K_close_spellings", Conns: [][]Exchange{{alpha[0], {r, defaultResp}}}})
			}
		}
	}
	// V: status codes beyond the basic set, HTTP/1.0 origins, response trailers, two interim responses
	statuses := []int{202, 203, 205, 206, 226, 299, 300, 301, 302, 303, 307, 308, 400, 401, 403, 410, 418, 429, 451, 501, 502, 503, 504, 599}
	for _, st := range statuses {
		for _, m := range []string{"GET", "POST", "HEAD"} {
			for _, f := range []string{"cl", "chunked", "close"} {
				for _, n := range []int{0, 4097} {
					if st == 205 && n > 0 {
						continue
					}
					if !thorough && (f == "close" || m == "HEAD") && st%3 != 0 {
						continue
					}
					r := get
					r.Method = m
					if m == "POST" {
						r.Framing, r.Size = "cl", 1
					}
					p := RespSpec{Status: st, Framing: f, Size: n}
					if st/100 == 3 {
						p.Location = "http://" + originHost + "/redirect-target?x=1"
					}
					g.add(single("V_statuses", r, p))
					g.add(Scenario{Family: "V_statuses", Conns: [][]Exchange{{{r, p}, alpha[1]}}})
				}
			}
		}
	}
	for _, p10 := range []string{"1.0", "1.0ka"} {
		for _, m := range []string{"GET", "POST", "HEAD"} {
			for _, pr := range []string{"1.1", "1.0", "1.0ka"} {
				for _, f := range []string{"cl", "close"} {
					for _, n := range []int{0, 1, 4097} {
						if p10 == "1.0ka" && f == "close" {
							continue
						}
						r := ReqSpec{Method: m, Abs: true, Proto: pr, Framing: "none", Seg: "one"}
						if m == "POST" {
							r.Framing, r.Size = "cl", 1
						}
						p := RespSpec{Status: 200, Framing: f, Size: n, Proto10: p10}
						g.add(single("V_http10_origin", r, p))
						g.add(Scenario{Family: "V_http10_origin", Conns: [][]Exchange{{{r, p}, alpha[0]}}})
						g.add(Scenario{Family: "V_http10_origin", Conns: [][]Exchange{{alpha[1], {r, p}}}, Pipelined: true})
					}
				}
			}
		}
	}
	for _, n := range []int{0, 1, 4097} {
		for _, pr := range []string{"1.1", "1.0ka"} {
			for _, cl := range []bool{false, true} {
				r := get
				r.Proto = pr
				g.add(single("V_resp_trailers", r, RespSpec{Status: 200, Framing: "chunkedT", Size: n, Close: cl}))
				g.add(Scenario{Family: "V_resp_trailers", Conns: [][]Exchange{{{r, RespSpec{Status: 200, Framing: "chunkedT", Size: n}}, alpha[1]}}, Pipelined: cl})
			}
		}
		g.add(single("V_two_interim", get, RespSpec{Status: 200, Interim2: true, Framing: "cl", Size: n}))
		g.add(single("V_two_interim", get, RespSpec{Status: 200, Interim2: true, Framing: "chunked", Size: n}))
		g.add(Scenario{Family: "V_two_interim", Conns: [][]Exchange{{{get, RespSpec{Status: 200, Interim2: true, Framing: "chunked", Size: n}}, alpha[1]}}, Pipelined: true})
	}
	// W: the proxy forwards through a downstream proxy (SetDownstreamProxy): singles and sequences of length 2
	for _, a := range alpha {
		g.add(Scenario{Family: "W_downstream_proxy", Conns: [][]Exchange{{a}}, Downstream: true})
		if a.closes() {
			continue
		}
		for _, b := range alpha {
			if !thorough && (b.Req.Method != a.Req.Method) {
				continue
			}
			for _, pipe := range []bool{false, true} {
				g.add(Scenario{Family: "W_downstream_proxy", Conns: [][]Exchange{{a, b}}, Downstream: true, Pipelined: pipe})
			}
		}
	}
	// Q: one client connection after the other on the same proxy (the second meets the transport's pooled
	// upstream connection and whatever state the first left behind)
	for _, a := range alpha {
		if a.closes() {
			continue
		}
		for _, b := range alpha {
			if !thorough && b.Resp.Status != a.Resp.Status && b.Req.Method != a.Req.Method {
				continue
			}
			g.add(Scenario{Family: "Q_sequential_connections", Conns: [][]Exchange{{a}, {b}}, Mode: "sequential_conns"})
			if thorough {
				g.add(Scenario{Family: "Q_sequential_connections", Conns: [][]Exchange{{a, b}, {b, a}, {a}}, Mode: "sequential_conns"})
			}
		}
	}
	// J: the client half-closes right after its last request
	for _, a := range alpha {
		a.Req.Close, a.Req.CloseTok = false, ""
		g.add(Scenario{Family: "J_client_half_close", Conns: [][]Exchange{{a}}, Mode: "half_close"})
		for _, b := range alpha {
			if b.closes() || (!thorough && b.Req.Method != "POST") {
				continue
			}
			g.add(Scenario{Family: "J_client_half_close", Conns: [][]Exchange{{b, a}}, Mode: "half_close"})
		}
	}
	// Y: request trailers: 1 or 2 announced trailer fields whose values follow the last chunk, on the first and on
	// the second request of a connection, sequential and pipelined
	for _, f := range []string{"chT", "chT2"} {
		for _, n := range []int{0, 1, 4097} {
			for _, m := range []string{"POST", "PUT"} {
				for _, abs := range []bool{true, false} {
					r := ReqSpec{Method: m, Abs: abs, Proto: "1.1", Framing: f, Size: n, Seg: "one"}
					g.add(single("Y_request_trailers", r, defaultResp))
					for _, pipe := range []bool{false, true} {
						g.add(Scenario{Family: "Y_request_trailers", Conns: [][]Exchange{{alpha[0], {r, defaultResp}}}, Pipelined: pipe})
						g.add(Scenario{Family: "Y_request_trailers", Conns: [][]Exchange{{{r, defaultResp}, {r, alpha[1].Resp}}}, Pipelined: pipe})
					}
				}
			}
		}
	}
	// R: the origin sends its response in two bursts with a silence of 0 / 150 / 400 ms between them (real time:
	// a handful of scenarios, run concurrently)
	for _, pause := range []int{0, 150, 400} {
		for _, b := range [][2]int{{20, 30}, {1000, 5000}, {4000, 30}, {4000, 5000}, {20, 5000}, {1000, 30}} {
			for _, f := range []string{"cl", "close", "chunked"} {
				p := RespSpec{Status: 200, Framing: f, Size: b[0] + b[1], PauseMs: pause, Burst1: b[0]}
				g.add(single("R_paused_bursts", get, p))
				g.add(Scenario{Family: "R_paused_bursts", Conns: [][]Exchange{{alpha[1], {get, p}}}})
			}
		}
	}
	// N: "Expect: 100-continue" towards an origin that never sends 100 Continue (the transport proceeds after
	// its ExpectContinueTimeout of one second)
	n100 := []string{"cl"}
	if thorough {
		n100 = []string{"cl", "ch2", "chT"}
	}
	for _, f := range n100 {
		for _, m := range []string{"POST", "PUT"} {
			r := ReqSpec{Method: m, Abs: true, Proto: "1.1", HSet: 7, Framing: f, Size: 4097, Seg: "split"}
			g.add(Scenario{Family: "N_expect_without_100", Conns: [][]Exchange{{{r, defaultResp}, alpha[0]}}, No100: true})
		}
	}
}

// wide 8x8 exchange alphabet (adds Expect: 100-continue, an implicit HTTP/1.0 close, gzip, 304 with
// Content-Length, 1xx-then-chunked to the 6x5 reduced alphabet)
func wideAlphabet() []Exchange {
	wreq := append(append([]ReqSpec(nil), redReq...),
		ReqSpec{Method: "OPTIONS", Abs: false, Proto: "1.1", HSet: 7, Framing: "cl", Size: 1, Seg: "lines"},
		ReqSpec{Method: "DELETE", Abs: true, Proto: "1.0", HSet: 6, Framing: "none", Seg: "one"})
	wresp := append(append([]RespSpec(nil), redResp...),
		RespSpec{Status: 200, Framing: "cl", Size: 4097, HSet: 2},
		RespSpec{Status: 304, Framing: "clhead", Size: 4097},
		RespSpec{Status: 201, Interim: true, Framing: "chunked", Size: 32769})
	var walpha []Exchange
	for _, r := range wreq {
		for _, p := range wresp {
			walpha = append(walpha, Exchange{r, p})
		}
	}
	return walpha
}

// interleavings calls f with every merge of the per-connection step lists (counts[i] steps of connection i,
// each connection's steps in order).
func interleavings(counts []int, f func(sched []int)) {
	total := 0
	for _, c := range counts {
		total += c
	}
	left := append([]int(nil), counts...)
	cur := make([]int, 0, total)
	var rec func()
	rec = func() {
		if len(cur) == total {
			f(cur)
			return
		}
		for c := range left {
			if left[c] > 0 {
				left[c]--
				cur = append(cur, c)
				rec()
				cur = cur[:len(cur)-1]
				left[c]++
			}
		}
	}
	rec()
}

// deepFamilies: thorough-only families.
func deepFamilies(g *gen, alpha []Exchange) {
	walpha := wideAlphabet()
	// D3: all sequences of length 3 over the wide 8x8 alphabet, sequential and pipelined
	// D4: all sequences of length 4 over the reduced 6x5 alphabet, sequential and pipelined
	for _, pipe := range []bool{false, true} {
		sfx := ""
		if pipe {
			sfx = "_pipelined"
		}
		// (sequences that end early because an exchange closes the connection are the shorter sequences
		// already enumerated by D and D2)
		exs := make([]Exchange, 3)
		for _, a := range walpha {
			if a.closes() {
				continue
			}
			for _, b := range walpha {
				if b.closes() {
					continue
				}
				for _, c := range walpha {
					exs[0], exs[1], exs[2] = a, b, c
					g.add(Scenario{Family: "D3_seq_wide_len3" + sfx, Conns: [][]Exchange{exs}, Pipelined: pipe})
				}
			}
		}
		ex4 := make([]Exchange, 4)
		for _, a := range alpha {
			if a.closes() {
				continue
			}
			for _, b := range alpha {
				if b.closes() {
					continue
				}
				for _, c := range alpha {
					if c.closes() {
						continue
					}
					for _, d := range alpha {
						ex4[0], ex4[1], ex4[2], ex4[3] = a, b, c, d
						g.add(Scenario{Family: "D4_seq_len4" + sfx, Conns: [][]Exchange{ex4}, Pipelined: pipe})
					}
				}
			}
		}
	}
	// P over the wide alphabet
	for _, a := range walpha {
		if a.closes() {
			continue
		}
		for _, b := range walpha {
			for _, cut := range []string{"one_byte", "in_request_line", "after_request_line", "in_headers", "before_last_lf", "after_blank_line", "in_body"} {
				if (cut == "after_blank_line" || cut == "in_body") && (b.Req.Framing == "none" || b.Req.Size < 2) {
					continue
				}
				a.Req.Seg, b.Req.Seg = "one", "one"
				g.add(Scenario{Family: "P_partial_next_request", Conns: [][]Exchange{{a, b}}, Mode: "partial_next", Cut: cut})
			}
		}
	}
	// S: origin responses cut into several writes at every header/body boundary (one write per head line, then
	// the body), at the head/body boundary, and byte by byte for short responses
	for _, m := range []string{"GET", "HEAD", "POST"} {
		for _, hs := range []int{0, 5} {
			for _, p := range respVariants([]int{0, 1, 4097, 8193}) {
				for _, sp := range []string{"headbody", "lines", "bytes"} {
					if sp == "bytes" && (p.Size > 1 || p.HSet == 1) {
						continue
					}
					r := ReqSpec{Method: m, Abs: true, Proto: "1.1", HSet: hs, Framing: "none", Seg: "one"}
					if m == "POST" {
						r.Framing, r.Size = "cl", 1
					}
					p.Split = sp
					g.add(single("S_resp_split", r, p))
				}
			}
		}
	}
	for _, pipe := range []bool{false, true} {
		for _, a := range alpha {
			for _, b := range alpha {
				for _, sp := range []string{"headbody", "lines"} {
					a.Resp.Split, b.Resp.Split = sp, sp
					g.add(Scenario{Family: "S_resp_split_seq", Conns: [][]Exchange{{a, b}}, Pipelined: pipe})
				}
			}
		}
	}
	// I: 2-3 client connections on one proxy whose requests interleave in a scripted order: every merge of
	// the connections' step lists (send request k / read response k), over a 4-exchange alphabet
	ia := []Exchange{
		{ReqSpec{Method: "GET", Abs: true, Proto: "1.1", Framing: "none", Seg: "one"}, RespSpec{Status: 200, Framing: "cl", Size: 4097, HSet: 1}},
		{ReqSpec{Method: "POST", Abs: false, Proto: "1.1", HSet: 1, Framing: "cl", Size: 4097, Seg: "split"}, RespSpec{Status: 200, Framing: "chunked2", Size: 8193}},
		{ReqSpec{Method: "HEAD", Abs: true, Proto: "1.1", Framing: "none", Seg: "one"}, RespSpec{Status: 200, Framing: "clhead", Size: 4097}},
		{ReqSpec{Method: "PUT", Abs: true, Proto: "1.1", Framing: "chT", Size: 4097, Seg: "one"}, RespSpec{Status: 204, Framing: "none"}},
	}
	interleavings([]int{4, 4}, func(sched []int) { // 2 connections x 2 exchanges: 70 schedules x 4^4 exchange choices
		for _, a1 := range ia {
			for _, a2 := range ia {
				for _, b1 := range ia {
					for _, b2 := range ia {
						g.add(Scenario{Family: "I_interleaved_2x2", Conns: [][]Exchange{{a1, a2}, {b1, b2}}, Mode: "interleaved", Sched: sched})
					}
				}
			}
		}
	})
	interleavings([]int{2, 2, 2}, func(sched []int) { // 3 connections x 1 exchange: 90 schedules x 4^3
		for _, a := range ia {
			for _, b := range ia {
				for _, c := range ia {
					g.add(Scenario{Family: "I_interleaved_3x1", Conns: [][]Exchange{{a}, {b}, {c}}, Mode: "interleaved", Sched: sched})
				}
			}
		}
	})
	interleavings([]int{4, 2, 2}, func(sched []int) { // 3 connections, 2+1+1 exchanges: 420 schedules x 2^4 choices
		for _, a1 := range ia[:2] {
			for _, a2 := range ia[2:] {
				for _, b := range ia[:2] {
					for _, c := range ia[1:3] {
						g.add(Scenario{Family: "I_interleaved_3x211", Conns: [][]Exchange{{a1, a2}, {b}, {c}}, Mode: "interleaved", Sched: sched})
					}
				}
			}
		}
	})
}

// ---------------------------------------------------------------------------------------------------
// execution + reference model

type finding struct {
	pos     int // exchange index on its connection
	class   string
	symptom string
	detail  string
}

type runOut struct {
	reached                                  map[string]bool
	quiet                                    time.Duration
	findings                                 []finding
	outcome                                  []string // canonical per-exchange outcome (for mem/tcp comparison and distinct outcome counting)
	exchanges                                int
	originReq                                int
	trailersRelayed, trailersDropped         int
	http10Chunked                            int
	cl304Dropped                             int
	inconclusive                             int
	inconclusiveAge                          int
	respTrailersRelayed, respTrailersDropped int
	bodyBytes                                int64
	// origin_closed_before_answer
	arrivals                               map[string][]int // by tag: index of each arrival on its origin connection
	noAnsFresh, noAnsReused, noAnsReplayed int              // first arrival on a fresh / reused upstream connection; permitted replays seen
	noAnsOwnAnswer                         int
}

func classOf(s *Scenario, e Exchange) string {
	nobody := bodiless(e.Req.Method, e.Resp.Status)
	switch {
	case s.Mode != "":
		return s.Mode
	case e.Resp.HdrBlock > 0:
		return "resp_header_block_" + hbBucket(e.Resp.HdrBlock)
	case e.Req.HdrBlock > 0:
		return "req_header_block_" + hbBucket(e.Req.HdrBlock)
	case nobody && strings.HasPrefix(e.Resp.Framing, "chunked"):
		return "bodiless_resp_te_chunked"
	case e.Resp.HSet == 2 && !e.Req.hasAcceptEncoding() && !nobody:
		return "gzip_resp_no_client_accept_encoding"
	case s.Pipelined:
		return "pipelined"
	case e.Req.Method == "HEAD":
		return "head"
	case e.Resp.Interim:
		return "interim_1xx"
	case strings.HasPrefix(e.Req.Proto, "1.0"):
		return "http10"
	}
	return "plain"
}

// reqClassOf is classOf restricted to request features (class of the origin-side symptoms).
func reqClassOf(s *Scenario, e Exchange) string {
	switch {
	case s.Mode != "":
		return s.Mode
	case e.Req.HdrBlock > 0:
		return "req_header_block_" + hbBucket(e.Req.HdrBlock)
	case e.Resp.HdrBlock > 0:
		return "resp_header_block_" + hbBucket(e.Resp.HdrBlock)
	case s.Pipelined:
		return "pipelined"
	case e.Req.Method == "HEAD":
		return "head"
	case strings.HasPrefix(e.Req.Proto, "1.0"):
		return "http10"
	}
	return "plain"
}

// sigName maps the numbered padding fields of a header block (x-blk-0000, x-blk-0001, ...) to one name, so
// that one defect yields one signature whatever the size of the block.
func sigName(name string) string {
	if strings.HasPrefix(name, "x-blk-") {
		return "x-blk"
	}
	return name
}

// hbBucket names the size class of a padded header block relative to net/http's 1 MiB constant.
func hbBucket(n int) string {
	if n <= 1<<20 {
		return "up_to_1MiB"
	}
	return "above_1MiB"
}

// closeCause names who asked for the connection to be closed (class of the conn_not_closed symptom).
func closeCause(e Exchange) string {
	switch {
	case e.Req.Close:
		return "client_connection_close"
	case e.Req.Proto == "1.0":
		return "client_http10_no_keepalive"
	case e.Resp.Close:
		return "origin_connection_close"
	}
	return "origin_close_delimited"
}

func shortHash(b []byte) string {
	h := sha1.Sum(b)
	return fmt.Sprintf("%d:%s", len(b), hex.EncodeToString(h[:4]))
}

func firstDiff(a, b []byte) int {
	n := len(a)
	if len(b) < n {
		n = len(b)
	}
	for i := 0; i < n; i++ {
		if a[i] != b[i] {
			return i
		}
	}
	if len(a) != len(b) {
		return n
	}
	return -1
}

// multisetMissing returns the expected values (per header name) that are not present among got.
func multisetMissing(want []h1harness.HeaderField, got func(name string) []string, connVals []string) []string {
	byName := map[string][]string{}
	var order []string
	for _, h := range want {
		k := strings.ToLower(h.Name)
		if h1harness.HopByHop(k, connVals) || k == "content-length" {
			continue
		}
		if _, ok := byName[k]; !ok {
			order = append(order, k)
		}
		byName[k] = append(byName[k], h.Value)
	}
	var missing []string
	for _, k := range order {
		have := append([]string(nil), got(k)...)
		for _, v := range byName[k] {
			found := false
			for i, hv := range have {
				if hv == v {
					have = append(have[:i], have[i+1:]...)
					found = true
					break
				}
			}
			if !found {
				missing = append(missing, k)
				break
			}
		}
	}
	return missing
}

type originScript struct {
	mu    sync.Mutex
	sc    *Scenario
	resps map[string]*builtResp // by tag
	order []string              // tags in arrival order
	// origin_closed_before_answer
	noAnswer map[string]string // by tag: "once" | "always"
	arrivals map[string][]int  // by tag: for each arrival, the index of the request on its origin connection
	answered map[string]int    // by tag: arrivals that were answered
}

// noAnswerExchange returns the tag and the exchange of the scenario whose request the origin does not answer.
// modeShortBody (round 9): the origin dies in the middle of a response body whose length it announced, and the
// client has already pipelined its next request behind the one being answered.
const modeShortBody = "origin_dies_mid_body"

func shortBodyFamilies(g *gen) {
	plain := Exchange{ReqSpec{Method: "GET", Abs: true, Proto: "1.1", Framing: "none", Seg: "one"}, RespSpec{Status: 200, Framing: "cl", Size: 17}}
	for _, fr := range []string{"cl", "chunked"} {
		for _, size := range []int{20, 4097, 70000} {
			for _, at := range []string{"b0", "half", "m1"} {
				for _, m := range []string{"GET", "POST"} {
					req := ReqSpec{Method: m, Abs: true, Proto: "1.1", Framing: "none", Seg: "one"}
					if m == "POST" {
						req.Framing, req.Size = "cl", 33
					}
					x := Exchange{req, RespSpec{Status: 200, Framing: fr, Size: size, ShortAt: at}}
					for _, conns := range [][][]Exchange{{{x, plain}}, {{plain, x, plain}}} {
						g.add(Scenario{Family: "SB_origin_dies_mid_body", Conns: conns, Mode: modeShortBody})
					}
				}
			}
		}
	}
}

// runShortBody: the exchanges before the short one run one by one; the request of the short exchange and the one
// behind it leave the client in ONE write. One-to-one and in order: whatever the client is given as the response
// to the short exchange consists of bytes the origin sent for it - a response that looks complete cannot be the
// origin's (it never sent the whole body), and body bytes beyond the origin's are another response's.
func runShortBody(env *h1harness.Env, s *Scenario, script *originScript, out *runOut, mu *sync.Mutex) {
	report := func(k int, sym, detail string) {
		out.findings = append(out.findings, finding{k, s.Mode, sym, detail})
	}
	cl, err := env.NewClient()
	if err != nil {
		out.findings = append(out.findings, finding{0, "harness", "client_dial_failed", err.Error()})
		return
	}
	if out.quiet > 0 {
		cl.QuietTimeout = out.quiet
	}
	addOutcome := func(o string) { out.outcome = append(out.outcome, "c0:"+o) }
	exs := s.Conns[0]
	for k, e := range exs {
		t := tag(0, k)
		if e.Resp.ShortAt == "" {
			if err := cl.Send(buildReq(s.ID, 0, k, e.Req).segs...); err != nil {
				report(k, "conn_closed_early", "writing request failed: "+err.Error())
				return
			}
			res := cl.ReadResponse(e.Req.Method)
			out.exchanges++
			if res.HeadErr == "" {
				out.reached[t] = true
			}
			if !checkResponse(s, e, t, k, res, script.resps[t], report, addOutcome, out, mu) {
				return
			}
			continue
		}
		var both []byte
		for _, seg := range buildReq(s.ID, 0, k, e.Req).segs {
			both = append(both, seg...)
		}
		for _, seg := range buildReq(s.ID, 0, k+1, exs[k+1].Req).segs {
			both = append(both, seg...)
		}
		if err := cl.Send(both); err != nil {
			report(k, "conn_closed_early", "writing request failed: "+err.Error())
			return
		}
		res := cl.ReadResponse(e.Req.Method)
		out.exchanges++
		out.reached[t] = true
		want := script.resps[t]
		addOutcome(fmt.Sprintf("short/%s/%d/%s/%s/%d", e.Resp.ShortAt, res.Status, res.HeadErr, res.BodyEnd, len(res.Body)))
		what := fmt.Sprintf(" (the origin announced a %s body of %d bytes, sent its head and stopped at %q, then closed; the next request was already pipelined)", e.Resp.Framing, len(want.body), e.Resp.ShortAt)
		if res.HeadErr == "" && res.Status == want.status {
			if !bytes.HasPrefix(want.body, res.Body) {
				report(k, "resp_body_foreign_bytes", fmt.Sprintf("the body given to the client (%d bytes) is not a prefix of the body the origin was sending; first difference at offset %d: %q", len(res.Body), firstDiff(want.body, res.Body), trunc(res.Body[min(len(res.Body), max(0, firstDiff(want.body, res.Body)-8)):], 60))+what)
			} else if res.BodyEnd == h1harness.EndOK && !res.HeadOnly {
				report(k, "resp_completed_beyond_origin_bytes", fmt.Sprintf("the client was given a complete response with %d body bytes", len(res.Body))+what)
			}
		}
		return // what becomes of the pipelined request is not judged: it is not in `reached`
	}
}

func noAnswerExchange(s *Scenario) (string, Exchange) {
	for ci, exs := range s.Conns {
		for k, e := range exs {
			if e.Resp.NoAnswer != "" {
				return tag(ci, k), e
			}
		}
	}
	return "", Exchange{}
}

func (o *originScript) handler(conn, idx int, req *h1harness.RawRequest, perr error) h1harness.Action {
	if perr != nil {
		return h1harness.Action{Close: true}
	}
	if strings.HasPrefix(req.Target, "/probe") || strings.Contains(req.Target, "/probe") {
		o.mu.Lock()
		o.order = append(o.order, "probe")
		o.mu.Unlock()
		return h1harness.Action{Write: [][]byte{[]byte("HTTP/1.1 200 OK\r\nContent-Length: 8\r\nX-Probe: yes\r\n\r\nprobe-ok")}}
	}
	t := ""
	if v := req.Get("X-Exchange"); len(v) > 0 {
		t = v[0]
	}
	o.mu.Lock()
	o.order = append(o.order, t)
	r := o.resps[t]
	if mode := o.noAnswer[t]; mode != "" {
		o.arrivals[t] = append(o.arrivals[t], idx)
		if mode == "always" || len(o.arrivals[t]) == 1 {
			o.mu.Unlock()
			return h1harness.Action{Close: true} // the complete request was read; not a byte is written
		}
		o.answered[t]++
	}
	o.mu.Unlock()
	if r != nil {
		var c, k int
		if n, _ := fmt.Sscanf(t, "c%de%d", &c, &k); n == 2 && c < len(o.sc.Conns) && k < len(o.sc.Conns[c]) {
			if at := o.sc.Conns[c][k].Resp.ShortAt; at != "" {
				head := bytes.Index(r.wire, []byte("\r\n\r\n")) + 4
				cut := head
				switch at {
				case "half":
					cut = head + (len(r.wire)-head)/2
				case "m1":
					cut = len(r.wire) - 1
				}
				return h1harness.Action{Write: [][]byte{r.wire[:cut]}, Close: true}
			}
		}
	}
	if r == nil {
		return h1harness.Action{Write: [][]byte{[]byte("HTTP/1.1 599 Unknown Exchange\r\nContent-Length: 0\r\n\r\n")}}
	}
	return h1harness.Action{Write: r.segs, Close: r.close, Pauses: r.pauses}
}

func (o *originScript) early(conn, idx int, head *h1harness.RawRequest) *h1harness.Action {
	t := ""
	if v := head.Get("X-Exchange"); len(v) > 0 {
		t = v[0]
	}
	o.mu.Lock()
	r := o.resps[t]
	o.mu.Unlock()
	if r == nil || !r.early {
		return nil
	}
	return &h1harness.Action{Write: r.segs}
}

// runConn drives one client connection through its exchanges and applies the reference model.
// gate (optional) is called after the head and the first bytes of exchange 0's response body were read
// (stalled_reader mode).
func runConn(env *h1harness.Env, s *Scenario, ci int, script *originScript, out *runOut, mu *sync.Mutex, pause func(cl *h1harness.Client)) {
	exs := s.Conns[ci]
	cl, err := env.NewClient()
	if err != nil {
		mu.Lock()
		out.findings = append(out.findings, finding{0, "harness", "client_dial_failed", err.Error()})
		mu.Unlock()
		return
	}
	if out.quiet > 0 {
		cl.QuietTimeout = out.quiet
	}
	reqs := make([]*builtReq, len(exs))
	for k, e := range exs {
		reqs[k] = buildReq(s.ID, ci, k, e.Req)
	}
	probe := []byte("GET http://" + originHost + "/probe-" + tag(ci, 0) + " HTTP/1.1\r\nHost: " + originHost + "\r\nConnection: close\r\n\r\n")
	lastCloses := exs[len(exs)-1].closes()
	report := func(k int, sym, detail string) {
		mu.Lock()
		out.findings = append(out.findings, finding{k, classOf(s, exs[min(k, len(exs)-1)]), sym, detail})
		mu.Unlock()
	}
	addOutcome := func(o string) {
		mu.Lock()
		out.outcome = append(out.outcome, fmt.Sprintf("c%d:%s", ci, o))
		mu.Unlock()
	}
	if s.Pipelined {
		var all [][]byte
		for _, r := range reqs {
			all = append(all, r.segs...)
		}
		if !lastCloses {
			all = append(all, probe)
		}
		if err := cl.Send(all...); err != nil {
			report(0, "client_write_failed", err.Error())
			return
		}
	}
	for k, e := range exs {
		if !s.Pipelined {
			if err := cl.Send(reqs[k].segs...); err != nil {
				report(k, "conn_closed_early", "writing request failed: "+err.Error())
				return
			}
		}
		if pause != nil && k == 0 && ci == 0 {
			pause(cl)
		}
		res := cl.ReadResponse(e.Req.Method)
		mu.Lock()
		out.exchanges++
		if res.HeadErr == "" {
			out.reached[tag(ci, k)] = true
		}
		mu.Unlock()
		want := script.resps[tag(ci, k)]
		if !checkResponse(s, e, tag(ci, k), k, res, want, report, addOutcome, out, mu) {
			return
		}
		if !s.Pipelined && !e.closes() {
			if left := cl.Leftover(); len(left) > 0 {
				addOutcome(fmt.Sprintf("leftover=%d", len(left)))
				report(k, "resp_trailing_garbage", fmt.Sprintf("%d bytes follow the complete response although no further request was sent: %q", len(left), trunc(left, 80)))
				return
			}
		}
		if e.closes() {
			extra, end := cl.Drain()
			addOutcome("end=" + end)
			switch {
			case len(extra) > 0:
				report(k, "resp_trailing_garbage", fmt.Sprintf("%d bytes after the response that should have been the last: %q", len(extra), trunc(extra, 80)))
			case end != h1harness.EndEOF:
				mu.Lock()
				out.findings = append(out.findings, finding{k, closeCause(e), "conn_not_closed", "either side asked to close but after the response the connection ended as: " + end})
				mu.Unlock()
			}
			return
		}
	}
	if s.Mode == "sequential_conns" && ci < len(s.Conns)-1 {
		cl.Conn.Close() // the client is done with this connection; the next one follows on the same proxy
		return
	}
	// the connection must still be usable: probe it (the probe asks to close, so EOF must follow)
	if !s.Pipelined {
		if err := cl.Send(probe); err != nil {
			report(len(exs)-1, "conn_closed_early", "connection not usable for the next request: "+err.Error())
			return
		}
	}
	res := cl.ReadResponse("GET")
	if res.HeadErr != "" || res.Status != 200 || string(res.Body) != "probe-ok" || res.BodyEnd != h1harness.EndOK {
		sym := "next_request_not_served"
		if res.HeadErr == h1harness.EndEOF || res.HeadErr == h1harness.EndReset {
			sym = "conn_closed_early"
		}
		report(len(exs)-1, sym, fmt.Sprintf("follow-up request on the same connection: head=%q status=%d body=%q end=%s", res.HeadErr, res.Status, trunc(res.Body, 60), res.BodyEnd))
		return
	}
	extra, end := cl.Drain()
	addOutcome("probe_ok,end=" + end)
	if len(extra) > 0 || end != h1harness.EndEOF {
		mu.Lock()
		out.findings = append(out.findings, finding{len(exs) - 1, "client_connection_close", "conn_not_closed", fmt.Sprintf("after the final request, which carried Connection: close: %d extra bytes, end=%s", len(extra), end)})
		mu.Unlock()
	}
}

// runInterleaved drives several client connections from one script thread: step i belongs to connection
// s.Sched[i]; a connection's even steps send its next request, its odd steps read and check the response.
// Afterwards every connection is probed and closed.
func runInterleaved(env *h1harness.Env, s *Scenario, script *originScript, out *runOut, mu *sync.Mutex) {
	type cstate struct {
		cl   *h1harness.Client
		step int
		dead bool
	}
	cs := make([]*cstate, len(s.Conns))
	for ci := range s.Conns {
		cl, err := env.NewClient()
		if err != nil {
			out.findings = append(out.findings, finding{0, "harness", "client_dial_failed", err.Error()})
			return
		}
		if out.quiet > 0 {
			cl.QuietTimeout = out.quiet
		}
		cs[ci] = &cstate{cl: cl}
	}
	mk := func(ci int) (func(int, string, string), func(string)) {
		exs := s.Conns[ci]
		return func(k int, sym, detail string) {
				out.findings = append(out.findings, finding{k, classOf(s, exs[min(k, len(exs)-1)]), sym, detail})
			}, func(o string) {
				out.outcome = append(out.outcome, fmt.Sprintf("c%d:%s", ci, o))
			}
	}
	for _, ci := range s.Sched {
		c := cs[ci]
		if c.dead {
			continue
		}
		k := c.step / 2
		e := s.Conns[ci][k]
		report, addOutcome := mk(ci)
		if c.step%2 == 0 {
			if err := c.cl.Send(buildReq(s.ID, ci, k, e.Req).segs...); err != nil {
				report(k, "conn_closed_early", "writing request failed: "+err.Error())
				c.dead = true
			}
		} else {
			res := c.cl.ReadResponse(e.Req.Method)
			out.exchanges++
			if res.HeadErr == "" {
				out.reached[tag(ci, k)] = true
			}
			if !checkResponse(s, e, tag(ci, k), k, res, script.resps[tag(ci, k)], report, addOutcome, out, mu) {
				c.dead = true
			} else if left := c.cl.Leftover(); len(left) > 0 {
				report(k, "resp_trailing_garbage", fmt.Sprintf("%d bytes follow the complete response although no further request was sent: %q", len(left), trunc(left, 80)))
				c.dead = true
			}
		}
		c.step++
	}
	for ci, c := range cs {
		if c.dead {
			continue
		}
		report, addOutcome := mk(ci)
		last := len(s.Conns[ci]) - 1
		probe := []byte("GET http://" + originHost + "/probe-" + tag(ci, 0) + " HTTP/1.1\r\nHost: " + originHost + "\r\nConnection: close\r\n\r\n")
		if err := c.cl.Send(probe); err != nil {
			report(last, "conn_closed_early", "connection not usable for the next request: "+err.Error())
			continue
		}
		res := c.cl.ReadResponse("GET")
		if res.HeadErr != "" || res.Status != 200 || string(res.Body) != "probe-ok" || res.BodyEnd != h1harness.EndOK {
			report(last, "next_request_not_served", fmt.Sprintf("follow-up request on the same connection: head=%q status=%d body=%q end=%s", res.HeadErr, res.Status, trunc(res.Body, 60), res.BodyEnd))
			continue
		}
		extra, end := c.cl.Drain()
		addOutcome("probe_ok,end=" + end)
		if len(extra) > 0 || end != h1harness.EndEOF {
			out.findings = append(out.findings, finding{last, "client_connection_close", "conn_not_closed", fmt.Sprintf("after the final request, which carried Connection: close: %d extra bytes, end=%s", len(extra), end)})
		}
	}
}

// cutPoint returns how many bytes of request wire (head+body, headLen = length of the head) travel early.
func cutPoint(cut string, wire []byte, headLen int) int {
	lineEnd := bytes.Index(wire, []byte("\r\n")) + 2
	switch cut {
	case "one_byte":
		return 1
	case "in_request_line":
		return lineEnd / 2
	case "after_request_line":
		return lineEnd
	case "in_headers":
		return lineEnd + (headLen-lineEnd)/2
	case "before_last_lf":
		return headLen - 1
	case "after_blank_line":
		return headLen
	case "in_body":
		return headLen + (len(wire)-headLen)/2
	}
	return 0
}

// runScripted drives the single-connection modes partial_next and idle_timeout.
func runScripted(env *h1harness.Env, s *Scenario, script *originScript, out *runOut, mu *sync.Mutex) {
	exs := s.Conns[0]
	cl, err := env.NewClient()
	if err != nil {
		out.findings = append(out.findings, finding{0, "harness", "client_dial_failed", err.Error()})
		return
	}
	report := func(k int, sym, detail string) {
		out.findings = append(out.findings, finding{k, s.Mode, sym, detail})
	}
	addOutcome := func(o string) { out.outcome = append(out.outcome, "c0:"+o) }
	read := func(k int) bool {
		res := cl.ReadResponse(exs[k].Req.Method)
		out.exchanges++
		if res.HeadErr == "" {
			out.reached[tag(0, k)] = true
		}
		if !checkResponse(s, exs[k], tag(0, k), k, res, script.resps[tag(0, k)], report, addOutcome, out, mu) {
			return false
		}
		if left := cl.Leftover(); len(left) > 0 {
			report(k, "resp_trailing_garbage", fmt.Sprintf("%d bytes follow the complete response although no further request was sent: %q", len(left), trunc(left, 80)))
			return false
		}
		return true
	}
	switch s.Mode {
	case "partial_next":
		r1, r2 := buildReq(s.ID, 0, 0, exs[0].Req), buildReq(s.ID, 0, 1, exs[1].Req)
		w1, w2 := bytes.Join(r1.segs, nil), bytes.Join(r2.segs, nil)
		headLen := bytes.Index(w2, []byte("\r\n\r\n")) + 4
		cut := cutPoint(s.Cut, w2, headLen)
		if err := cl.Send(append(append([]byte{}, w1...), w2[:cut]...)); err != nil {
			report(0, "conn_closed_early", "writing failed: "+err.Error())
			return
		}
		// the client does not send the rest of request 2 before it has response 1
		if !read(0) {
			return
		}
		if err := cl.Send(w2[cut:]); err != nil {
			report(1, "conn_closed_early", "writing the rest of request 2 failed: "+err.Error())
			return
		}
		if !read(1) {
			return
		}
	case "half_close":
		// the client shuts down its sending side right after its last request; the response must still
		// arrive in full, followed by the proxy's close
		for k := range exs {
			if err := cl.Send(buildReq(s.ID, 0, k, exs[k].Req).segs...); err != nil {
				report(k, "conn_closed_early", "writing request failed: "+err.Error())
				return
			}
			if k == len(exs)-1 {
				cl.CloseWrite()
			}
			if !read(k) {
				return
			}
		}
		extra, end := cl.Drain()
		addOutcome("end=" + end)
		if len(extra) > 0 {
			report(len(exs)-1, "resp_trailing_garbage", fmt.Sprintf("%d bytes after the last response: %q", len(extra), trunc(extra, 80)))
		} else if end != h1harness.EndEOF {
			report(len(exs)-1, "conn_not_closed", "the client half-closed after its last request; after the response the connection ended as: "+end)
		}
		return
	case "idle_timeout":
		limit := time.Duration(s.TimeoutMs) * time.Millisecond / 2
		var done time.Time
		for k := range exs {
			if k > 0 {
				time.Sleep(time.Duration(s.GapMs) * time.Millisecond)
			}
			err := cl.Send(buildReq(s.ID, 0, k, exs[k].Req).segs...)
			if k > 0 && time.Since(done) >= limit {
				out.inconclusive++ // the machine was too slow for this run to say anything
				return
			}
			if err != nil {
				report(k, "conn_closed_early", fmt.Sprintf("request %d, written %v after response %d on a connection whose idle timeout is %d ms: %v", k, time.Since(done).Round(time.Millisecond), k-1, s.TimeoutMs, err))
				return
			}
			if !read(k) {
				return
			}
			done = time.Now()
		}
	}
	if exs[len(exs)-1].closes() {
		extra, end := cl.Drain()
		if len(extra) > 0 || end != h1harness.EndEOF {
			out.findings = append(out.findings, finding{len(exs) - 1, closeCause(exs[len(exs)-1]), "conn_not_closed", fmt.Sprintf("%d extra bytes, end=%s", len(extra), end)})
		}
		return
	}
	probe := []byte("GET http://" + originHost + "/probe-" + tag(0, 0) + " HTTP/1.1\r\nHost: " + originHost + "\r\nConnection: close\r\n\r\n")
	if err := cl.Send(probe); err != nil {
		report(len(exs)-1, "conn_closed_early", "connection not usable for the next request: "+err.Error())
		return
	}
	res := cl.ReadResponse("GET")
	if res.HeadErr != "" || res.Status != 200 || string(res.Body) != "probe-ok" {
		report(len(exs)-1, "next_request_not_served", fmt.Sprintf("follow-up request: head=%q status=%d", res.HeadErr, res.Status))
	}
}

// runConnAge drives the upstream_conn_age mode: the exchanges of all connections form one timeline (s.Gaps[i]
// of idle time before the i-th exchange); a client connection is closed by the client when its exchanges are
// done and the next one is opened on the same proxy. Every gap and every exchange is measured: once one of them
// reaches half the proxy timeout the run says nothing about the property and is counted as inconclusive.
func runConnAge(env *h1harness.Env, s *Scenario, script *originScript, out *runOut, mu *sync.Mutex) {
	limit := time.Duration(s.TimeoutMs) * time.Millisecond / 2
	report := func(k int, sym, detail string) {
		out.findings = append(out.findings, finding{k, s.Mode, sym, detail})
	}
	begin := time.Now()
	var done time.Time
	step := 0
	for ci, exs := range s.Conns {
		cl, err := env.NewClient()
		if err != nil {
			out.findings = append(out.findings, finding{0, "harness", "client_dial_failed", err.Error()})
			return
		}
		addOutcome := func(o string) { out.outcome = append(out.outcome, fmt.Sprintf("c%d:%s", ci, o)) }
		for k, e := range exs {
			if step < len(s.Gaps) && s.Gaps[step] > 0 {
				time.Sleep(time.Duration(s.Gaps[step]) * time.Millisecond)
			}
			step++
			if !done.IsZero() && time.Since(done) >= limit {
				out.inconclusiveAge++
				return
			}
			start := time.Now()
			serr := cl.Send(buildReq(s.ID, ci, k, e.Req).segs...)
			res := cl.ReadResponse(e.Req.Method)
			if time.Since(start) >= limit {
				out.inconclusiveAge++
				return
			}
			age := fmt.Sprintf(" [exchange %d of the timeline, started %v after the first, proxy timeout %d ms, every gap and exchange shorter than %v]", step-1, start.Sub(begin).Round(10*time.Millisecond), s.TimeoutMs, limit)
			if serr != nil {
				report(k, "conn_closed_early", "writing request failed: "+serr.Error()+age)
				return
			}
			out.exchanges++
			if res.HeadErr == "" {
				out.reached[tag(ci, k)] = true
			}
			if !checkResponse(s, e, tag(ci, k), k, res, script.resps[tag(ci, k)], func(k int, sym, d string) { report(k, sym, d+age) }, addOutcome, out, mu) {
				return
			}
			if left := cl.Leftover(); len(left) > 0 {
				report(k, "resp_trailing_garbage", fmt.Sprintf("%d bytes follow the complete response although no further request was sent: %q", len(left), trunc(left, 80)))
				return
			}
			done = time.Now()
		}
		if ci < len(s.Conns)-1 {
			cl.Conn.Close()
			continue
		}
		probe := []byte("GET http://" + originHost + "/probe-" + tag(ci, 0) + " HTTP/1.1\r\nHost: " + originHost + "\r\nConnection: close\r\n\r\n")
		if err := cl.Send(probe); err != nil {
			report(len(exs)-1, "conn_closed_early", "connection not usable for the next request: "+err.Error())
			return
		}
		pres := cl.ReadResponse("GET")
		if time.Since(done) >= limit {
			out.inconclusiveAge++
			return
		}
		if pres.HeadErr != "" || pres.Status != 200 || string(pres.Body) != "probe-ok" {
			report(len(exs)-1, "next_request_not_served", fmt.Sprintf("follow-up request: head=%q status=%d", pres.HeadErr, pres.Status))
		}
	}
}

// runNoAnswer drives the origin_closed_before_answer mode: the client connections follow one another on the
// same proxy (each but the last is closed by the client after its exchanges); one request is read completely
// by the origin, which then closes the connection without a response byte. The client must still receive
// exactly one complete, well-formed response to it: the origin's own if an arrival of the request was answered
// (a replay that net/http's rules permit), otherwise one made by the proxy, with a 5xx status. The exchanges
// around it are judged as everywhere else, and the last connection is probed.
func runNoAnswer(env *h1harness.Env, s *Scenario, script *originScript, out *runOut, mu *sync.Mutex) {
	report := func(k int, sym, detail string) {
		out.findings = append(out.findings, finding{k, s.Mode, sym, detail})
	}
	for ci, exs := range s.Conns {
		cl, err := env.NewClient()
		if err != nil {
			out.findings = append(out.findings, finding{0, "harness", "client_dial_failed", err.Error()})
			return
		}
		if out.quiet > 0 {
			cl.QuietTimeout = out.quiet
		}
		addOutcome := func(o string) { out.outcome = append(out.outcome, fmt.Sprintf("c%d:%s", ci, o)) }
		for k, e := range exs {
			t := tag(ci, k)
			if err := cl.Send(buildReq(s.ID, ci, k, e.Req).segs...); err != nil {
				report(k, "conn_closed_early", "writing request failed: "+err.Error())
				return
			}
			res := cl.ReadResponse(e.Req.Method)
			out.exchanges++
			if res.HeadErr == "" || e.Resp.NoAnswer != "" {
				out.reached[t] = true // the origin log of the unanswered request is judged whatever the client saw
			}
			script.mu.Lock()
			answered, arrivals := script.answered[t], append([]int(nil), script.arrivals[t]...)
			script.mu.Unlock()
			if e.Resp.NoAnswer == "" || answered > 0 || res.HeadErr != "" {
				if !checkResponse(s, e, t, k, res, script.resps[t], report, addOutcome, out, mu) {
					return
				}
			} else {
				// no answer of the origin exists: the proxy's own, complete and well-formed, saying so
				addOutcome(fmt.Sprintf("own/%d/%s/%s", res.Status, res.Framing, res.BodyEnd))
				what := fmt.Sprintf(" (%s request, framing %s; the origin read it %d time(s), as request(s) no. %v of the connection(s), and closed without answering)", e.Req.Method, e.Req.Framing, len(arrivals), arrivals)
				if res.BodyEnd != h1harness.EndOK {
					report(k, "resp_incomplete", fmt.Sprintf("the proxy's own response ended with %s after %d body bytes", res.BodyEnd, len(res.Body))+what)
					return
				}
				if res.Status < 500 || res.Status > 599 {
					report(k, "resp_status_without_origin_answer", fmt.Sprintf("status %d although no response of the origin exists", res.Status)+what)
				}
			}
			if left := cl.Leftover(); len(left) > 0 {
				report(k, "resp_trailing_garbage", fmt.Sprintf("%d bytes follow the complete response although no further request was sent: %q", len(left), trunc(left, 80)))
				return
			}
		}
		if ci < len(s.Conns)-1 {
			cl.Conn.Close()
			continue
		}
		probe := []byte("GET http://" + originHost + "/probe-" + tag(ci, 0) + " HTTP/1.1\r\nHost: " + originHost + "\r\nConnection: close\r\n\r\n")
		if err := cl.Send(probe); err != nil {
			report(len(exs)-1, "conn_closed_early", "connection not usable for the next request: "+err.Error())
			return
		}
		pres := cl.ReadResponse("GET")
		if pres.HeadErr != "" || pres.Status != 200 || string(pres.Body) != "probe-ok" || pres.BodyEnd != h1harness.EndOK {
			report(len(exs)-1, "next_request_not_served", fmt.Sprintf("follow-up request: head=%q status=%d body=%q end=%s", pres.HeadErr, pres.Status, trunc(pres.Body, 60), pres.BodyEnd))
			return
		}
		extra, end := cl.Drain()
		addOutcome("probe_ok,end=" + end)
		if len(extra) > 0 || end != h1harness.EndEOF {
			out.findings = append(out.findings, finding{len(exs) - 1, "client_connection_close", "conn_not_closed", fmt.Sprintf("after the final request, which carried Connection: close: %d extra bytes, end=%s", len(extra), end)})
		}
	}
}

func trunc(b []byte, n int) []byte {
	if len(b) > n {
		return b[:n]
	}
	return b
}

func checkResponse(s *Scenario, e Exchange, wantTag string, k int, res *h1harness.Response, want *builtResp, report func(int, string, string), addOutcome func(string), out *runOut, mu *sync.Mutex) bool {
	if res.HeadErr != "" {
		addOutcome("head=" + res.HeadErr)
		switch res.HeadErr {
		case h1harness.EndStalled:
			report(k, "no_response", "no response arrived; proxy and client both wait for input")
		case h1harness.EndHang:
			report(k, "hang", "no response within the hang deadline")
		case h1harness.EndEOF, h1harness.EndReset:
			report(k, "conn_closed_early", "connection closed instead of a response: "+res.HeadErr)
		default:
			if s.Pipelined && k > 0 {
				// in a pipelined stream a malformed head means the previous response was mis-framed
				report(k-1, "following_response_malformed", fmt.Sprintf("after response %d the stream continues with something that is not a response head: %s", k-1, res.HeadErr))
			} else {
				report(k, "resp_malformed", "response head: "+res.HeadErr)
			}
		}
		return false
	}
	addOutcome(fmt.Sprintf("%d/%s/%s/%s/i%d", res.Status, res.Framing, shortHash(res.Body), res.BodyEnd, len(res.Interim)))
	mu.Lock()
	out.bodyBytes += int64(len(res.Body))
	if res.Framing == "chunked" && strings.HasPrefix(e.Req.Proto, "1.0") {
		out.http10Chunked++
	}
	mu.Unlock()
	ok := true
	if res.BodyEnd != h1harness.EndOK {
		ok = false
		switch {
		case res.BodyEnd == h1harness.EndStalled && res.Framing == "close":
			report(k, "resp_unframed_conn_open", fmt.Sprintf("response head has neither Content-Length nor chunking nor Connection: close (headers %v), %d body bytes arrived, then the proxy waits for the next request on the open connection: the client cannot delimit the response", hdrNames(res.Header), len(res.Body)))
		case res.BodyEnd == h1harness.EndStalled:
			report(k, "resp_body_short_conn_open", fmt.Sprintf("framing %s promised more than the %d body bytes delivered; connection left open", res.Framing, len(res.Body)))
		case res.BodyEnd == h1harness.EndHang:
			report(k, "hang", "response body did not complete within the hang deadline")
		default:
			report(k, "resp_incomplete", fmt.Sprintf("body ended with %s after %d bytes", res.BodyEnd, len(res.Body)))
		}
	}
	if got := res.Header.Get("X-Exchange"); got != "" && got != wantTag {
		report(k, "resp_out_of_order", fmt.Sprintf("response to %s carries X-Exchange %q", wantTag, got))
		return false
	}
	if res.Status != want.status {
		report(k, "resp_status", fmt.Sprintf("status %d, origin sent %d", res.Status, want.status))
		ok = false
	}
	var connVals []string
	for _, h := range want.headers {
		if strings.EqualFold(h.Name, "Connection") {
			connVals = append(connVals, h.Value)
		}
	}
	for _, name := range multisetMissing(want.headers, func(n string) []string { return res.Header[http.CanonicalHeaderKey(n)] }, connVals) {
		report(k, "resp_header_lost:"+sigName(name), fmt.Sprintf("origin sent %v, client received %q", valuesOf(want.headers, name), res.Header[http.CanonicalHeaderKey(name)]))
		ok = false
	}
	if want.trailer != "" {
		mu.Lock()
		if res.Trailer.Get("X-Resp-Trail") == want.trailer {
			out.respTrailersRelayed++
		} else {
			out.respTrailersDropped++ // permitted (RFC 9112 7.1.2): counted, not a violation
		}
		mu.Unlock()
	}
	if want.clHead != "" {
		if got := res.Header.Get("Content-Length"); got != want.clHead {
			if e.Req.Method == "HEAD" && res.Status != 304 && res.Status != 204 {
				report(k, "resp_head_content_length", fmt.Sprintf("origin's response to HEAD carried Content-Length %s, client received %q", want.clHead, got))
				ok = false
			} else {
				// Content-Length on a 304 is optional metadata that net/http's Response.Write never emits; it is
				// treated like the other framing headers (not compared) and only counted.
				mu.Lock()
				out.cl304Dropped++
				mu.Unlock()
			}
		}
	}
	if res.BodyEnd == h1harness.EndOK || len(res.Body) > 0 {
		if d := firstDiff(res.Body, want.body); d >= 0 && res.BodyEnd == h1harness.EndOK {
			report(k, "resp_body", fmt.Sprintf("body differs from what the origin sent at offset %d (got %d bytes, origin sent %d)", d, len(res.Body), len(want.body)))
			ok = false
		} else if res.BodyEnd != h1harness.EndOK && !bytes.HasPrefix(want.body, res.Body) {
			report(k, "resp_body", fmt.Sprintf("partial body differs from what the origin sent at offset %d", d))
		}
	}
	return ok
}

func hdrNames(h http.Header) []string {
	var n []string
	for k := range h {
		n = append(n, k)
	}
	sort.Strings(n)
	return n
}

func valuesOf(hs []h1harness.HeaderField, name string) []string {
	var out []string
	for _, h := range hs {
		if strings.EqualFold(h.Name, name) {
			v := h.Value
			if len(v) > 40 {
				v = v[:40] + "..."
			}
			out = append(out, v)
		}
	}
	return out
}

// checkOrigin compares what the origin received with what the clients sent.
func checkOrigin(s *Scenario, log []*h1harness.RawRequest, parseErrs []string, out *runOut, sent map[string]*builtReq, reached map[string]bool) {
	byTag := map[string][]*h1harness.RawRequest{}
	var order []string
	for _, r := range log {
		if strings.Contains(r.Target, "/probe") {
			continue
		}
		t := ""
		if v := r.Get("X-Exchange"); len(v) > 0 {
			t = v[0]
		}
		byTag[t] = append(byTag[t], r)
		order = append(order, t)
	}
	out.originReq = len(log)
	if n := len(byTag[""]); n > 0 {
		// a request the client never sent (e.g. the proxy followed a redirect on its own)
		out.findings = append(out.findings, finding{0, reqClassOf(s, s.Conns[0][0]), "req_unexpected_at_origin", fmt.Sprintf("the origin received %d request(s) no client sent, first: %s %s", n, byTag[""][0].Method, byTag[""][0].Target)})
	}
	for _, pe := range parseErrs {
		out.findings = append(out.findings, finding{0, reqClassOf(s, s.Conns[0][0]), "req_malformed_at_origin", pe})
	}
	// per connection order
	for ci, exs := range s.Conns {
		last := -1
		for _, t := range order {
			var c, k int
			if n, _ := fmt.Sscanf(t, "c%de%d", &c, &k); n == 2 && c == ci && reached[t] {
				if k == last && k < len(exs) && exs[k].Resp.NoAnswer != "" {
					continue // repeated arrivals of the unanswered request: counted and judged below
				}
				if k <= last {
					out.findings = append(out.findings, finding{k, reqClassOf(s, exs[min(k, len(exs)-1)]), "req_order_or_duplicate", fmt.Sprintf("origin saw exchanges in order %v", order)})
					break
				}
				last = k
			}
		}
		for k, e := range exs {
			t := tag(ci, k)
			if !reached[t] {
				continue
			}
			cls := reqClassOf(s, e)
			add := func(sym, detail string) {
				out.findings = append(out.findings, finding{k, cls, sym, detail})
			}
			got := byTag[t]
			if len(got) == 0 {
				add("req_missing_at_origin", "the origin never received this request")
				continue
			}
			if e.Resp.NoAnswer != "" {
				// the origin read this request and closed the connection without answering. One-to-one: it must
				// not see the request again, unless net/http's documented replay rule covers it (idempotent
				// method, no body, and the failed attempt travelled on a reused upstream connection - judged
				// on what the origin observed: the first arrival was not the first request of its connection);
				// the replay then travels on a fresh connection and is the last one.
				arr := out.arrivals[t]
				reused := len(arr) > 0 && arr[0] > 0
				allowed := 1
				if replayPermitted(e.Req, reused) {
					allowed = 2
				}
				if reused {
					out.noAnsReused++
				} else {
					out.noAnsFresh++
				}
				if len(got) == 2 && allowed == 2 {
					out.noAnsReplayed++
				}
				if len(got) > allowed {
					add("req_duplicated_at_origin", fmt.Sprintf("the origin received this %s request (framing %s) %d times, as request(s) no. %v of its connection(s), after having read it completely and closed the connection without an answer; net/http's replay rule (idempotent method, no body, reused connection) permits %d delivery(ies) here", e.Req.Method, e.Req.Framing, len(got), arr, allowed))
				}
			} else if len(got) > 1 {
				add("req_duplicated_at_origin", fmt.Sprintf("the origin received this request %d times", len(got)))
			}
			r := got[0]
			w := sent[t]
			if r.Method != e.Req.Method {
				add("req_method", fmt.Sprintf("origin got method %q, client sent %q", r.Method, e.Req.Method))
			}
			tgt := r.Target
			if i := strings.Index(tgt, "://"); i > 0 && !strings.ContainsAny(tgt[:i], "/?") {
				// absolute-form (what a downstream proxy receives): compare path and query only
				rest := tgt[i+3:]
				if j := strings.IndexAny(rest, "/?"); j >= 0 {
					tgt = rest[j:]
					if tgt[0] == '?' {
						tgt = "/" + tgt
					}
				} else {
					tgt = "/"
				}
			}
			if tgt != w.target {
				add("req_target", fmt.Sprintf("origin got target %q, client sent path+query %q", r.Target, w.target))
			}
			var reqConnVals []string
			for _, h := range w.headers {
				if strings.EqualFold(h.Name, "Connection") {
					reqConnVals = append(reqConnVals, h.Value)
				}
			}
			for _, name := range multisetMissing(w.headers, r.Get, reqConnVals) {
				add("req_header_lost:"+sigName(name), fmt.Sprintf("client sent %v, origin received %q", valuesOf(w.headers, name), r.Get(name)))
			}
			if e.Resp.Early {
				continue // the origin deliberately did not read the body
			}
			if d := firstDiff(r.Body, w.payload); d >= 0 {
				add("req_body", fmt.Sprintf("request body differs at offset %d (origin got %d bytes, client sent %d)", d, len(r.Body), len(w.payload)))
			}
			if len(w.trailer) > 0 {
				if len(multisetMissing(w.trailer, func(n string) []string {
					var vs []string
					for _, tf := range r.Trailers {
						if strings.EqualFold(tf.Name, n) {
							vs = append(vs, tf.Value)
						}
					}
					return vs
				}, nil)) == 0 {
					out.trailersRelayed++
				} else {
					out.trailersDropped++
					// trailer fields the client announced (Trailer header) and sent after the last chunk are
					// end-to-end fields of the request: the origin must receive their values after the body
					add("req_trailer_lost", fmt.Sprintf("client sent trailer fields %v after the last chunk, origin received %v", w.trailer, r.Trailers))
				}
			}
			out.bodyBytes += int64(len(r.Body))
		}
	}
}

func runScenario(s *Scenario, kind string, quiet time.Duration) *runOut {
	out := &runOut{reached: map[string]bool{}, quiet: quiet}
	var mu sync.Mutex
	script := &originScript{sc: s, resps: map[string]*builtResp{}, noAnswer: map[string]string{}, arrivals: map[string][]int{}, answered: map[string]int{}}
	sent := map[string]*builtReq{}
	for ci, exs := range s.Conns {
		for k, e := range exs {
			if e.Resp.NoAnswer != "" {
				script.noAnswer[tag(ci, k)] = e.Resp.NoAnswer
			}
			script.resps[tag(ci, k)] = buildResp(s.ID, ci, k, e.Req.Method, e.Resp)
			sent[tag(ci, k)] = buildReq(s.ID, ci, k, e.Req)
		}
	}
	origin := &h1harness.Origin{Handler: script.handler, Early: script.early, Continue100: !s.No100}
	opts := h1harness.EnvOpts{Kind: kind, BufCap: s.BufCap, Timeout: time.Duration(s.TimeoutMs) * time.Millisecond}
	if s.Downstream {
		opts.Downstream = "http://downstream.test:3128"
	}
	env, err := h1harness.NewEnv(opts, origin)
	if err != nil {
		out.findings = append(out.findings, finding{0, "harness", "env_failed", err.Error()})
		return out
	}
	switch s.Mode {
	case "concurrent":
		var wg sync.WaitGroup
		for ci := range s.Conns {
			wg.Add(1)
			go func(ci int) {
				defer wg.Done()
				runConn(env, s, ci, script, out, &mu, nil)
			}(ci)
		}
		wg.Wait()
	case "stalled_reader":
		// connection 0 sends its request and does not read; once the proxy is blocked writing the response
		// into the full connection buffer, connection 1 runs its exchanges; then connection 0 reads.
		runConn(env, s, 0, script, out, &mu, func(cl *h1harness.Client) {
			// schedule shaping only (no oracle): wait until the proxy has filled the connection buffer
			deadline := time.Now().Add(5 * time.Second)
			for !cl.InboundFull() && time.Now().Before(deadline) {
				time.Sleep(200 * time.Microsecond)
			}
			runConn(env, s, 1, script, out, &mu, nil)
		})
	case "interleaved":
		runInterleaved(env, s, script, out, &mu)
	case "partial_next", "idle_timeout", "half_close":
		runScripted(env, s, script, out, &mu)
	case "upstream_conn_age":
		runConnAge(env, s, script, out, &mu)
	case modeNoAnswer:
		runNoAnswer(env, s, script, out, &mu)
	case modeShortBody:
		runShortBody(env, s, script, out, &mu)
	case "sequential_conns":
		// one client connection after the other on the same proxy (shared transport, pooled upstream
		// connections): every connection but the last is closed by the client after its exchanges
		for ci := range s.Conns {
			runConn(env, s, ci, script, out, &mu, nil)
		}
	default:
		runConn(env, s, 0, script, out, &mu, nil)
	}
	reached := out.reached
	// snapshot of what the origin saw, taken before the teardown (which cuts connections and may thereby
	// provoke transport retries that are not part of the scenario)
	originLog, originErrs := env.Origin.Log(), env.Origin.ParseErrors()
	for _, d := range env.Dials() {
		want := originHost + ":80"
		if s.Downstream {
			want = "downstream.test:3128"
		}
		if d != want {
			out.findings = append(out.findings, finding{0, reqClassOf(s, s.Conns[0][0]), "dial_target", fmt.Sprintf("the proxy dialled %q, the configuration sends this exchange to %q", d, want)})
			break
		}
	}
	shutdownOK := env.Close()
	if !shutdownOK {
		out.findings = append(out.findings, finding{0, classOf(s, s.Conns[0][0]), "proxy_shutdown_hang", "proxy.Close() did not return within 60 s after all client connections were closed"})
	}
	script.mu.Lock()
	out.arrivals = script.arrivals
	script.mu.Unlock()
	checkOrigin(s, originLog, originErrs, out, sent, reached)
	sort.Strings(out.outcome)
	return out
}

func sigOf(f finding) string {
	return f.class + ":" + f.symptom
}

func describe(s *Scenario) string {
	b, _ := json.Marshal(s)
	return string(b)
}

func runCase(s *Scenario) *h1harness.CaseResult {
	res := &h1harness.CaseResult{C: map[string]int64{}, K: map[string][]string{}}
	o := runScenario(s, "mem", 0)
	res.C["scenarios"]++
	res.C["fam_"+s.Family]++
	res.C["exchanges"] += int64(o.exchanges)
	res.C["origin_requests"] += int64(o.originReq)
	res.C["body_bytes_compared"] += o.bodyBytes
	res.C["req_trailers_relayed"] += int64(o.trailersRelayed)
	res.C["req_trailers_dropped"] += int64(o.trailersDropped)
	res.C["chunked_to_http10_client"] += int64(o.http10Chunked)
	res.C["content_length_dropped_on_304"] += int64(o.cl304Dropped)
	res.C["idle_timeout_runs_inconclusive"] += int64(o.inconclusive)
	res.C["conn_age_runs_inconclusive"] += int64(o.inconclusiveAge)
	if s.Mode == "upstream_conn_age" && o.inconclusiveAge == 0 {
		res.C["conn_age_runs_judged"]++
	}
	for _, exs := range s.Conns {
		for _, e := range exs {
			if e.Req.HdrBlock > 0 || e.Resp.HdrBlock > 0 {
				res.C["header_block_bytes_relayed"] += int64(e.Req.HdrBlock + e.Resp.HdrBlock)
			}
		}
	}
	res.C["no_answer_first_arrival_on_fresh_upstream_conn"] += int64(o.noAnsFresh)
	res.C["no_answer_first_arrival_on_reused_upstream_conn"] += int64(o.noAnsReused)
	res.C["no_answer_permitted_replays_seen"] += int64(o.noAnsReplayed)
	res.C["resp_trailers_relayed"] += int64(o.respTrailersRelayed)
	res.C["resp_trailers_dropped"] += int64(o.respTrailersDropped)
	nontrivial := len(s.Conns) > 1
	for _, exs := range s.Conns {
		if len(exs) > 1 {
			nontrivial = true
		}
		for _, e := range exs {
			if (e.Req.Size > 0 && e.Req.Framing != "none" && e.Req.Framing != "cl0") || (e.Resp.Size > 0 && !bodiless(e.Req.Method, e.Resp.Status)) {
				nontrivial = true
			}
		}
	}
	if nontrivial {
		res.C["nontrivial"]++
	}
	okey := strings.Join(o.outcome, "|")
	abstract := abstractOutcome(o.outcome)
	res.K["outcomes"] = []string{abstract}
	seenSig := map[string]bool{}
	var syms []string
	for _, f := range o.findings {
		sig := sigOf(f)
		syms = append(syms, sig)
		if seenSig[sig] {
			continue
		}
		seenSig[sig] = true
		res.V = append(res.V, lib.Violation{Sig: sig, Desc: fmt.Sprintf("exchange %d of scenario %s: %s", f.pos, describe(s), f.detail), Replay: s})
	}
	if len(o.findings) > 0 {
		res.C["scenarios_with_violation"]++
	}
	if s.AlsoTCP {
		// over TCP a stall can only be recognised by a quiet period: short when the in-memory run stalled
		// (confirming it), long when it did not (so that scheduling delays are not mistaken for a stall)
		quiet := 6 * time.Second
		if strings.Contains(okey, "stalled") {
			quiet = 1500 * time.Millisecond
		}
		t := runScenario(s, "tcp", quiet)
		res.C["tcp_runs"]++
		var tsyms []string
		for _, f := range t.findings {
			tsyms = append(tsyms, sigOf(f))
			if f.class == "harness" {
				tsyms[len(tsyms)-1] += "(" + f.detail + ")"
			}
		}
		sort.Strings(syms)
		sort.Strings(tsyms)
		tkey := strings.Join(t.outcome, "|")
		if tkey != okey || strings.Join(dedup(syms), ",") != strings.Join(dedup(tsyms), ",") {
			res.C["mem_tcp_disagreements"]++
			res.N = fmt.Sprintf("mem/tcp disagreement on scenario %s: mem outcome %s findings %v; tcp outcome %s findings %v", describe(s), okey, dedup(syms), tkey, dedup(tsyms))
		}
	}
	if s.ID%997 == 0 {
		res.S = map[string]interface{}{"scenario": s, "outcome": o.outcome}
	}
	return res
}

func dedup(a []string) []string {
	var out []string
	for i, x := range a {
		if i == 0 || x != a[i-1] {
			out = append(out, x)
		}
	}
	return out
}

// abstractOutcome drops body hashes so that distinct outcomes count behaviours, not payloads.
func abstractOutcome(o []string) string {
	var parts []string
	for _, x := range o {
		f := strings.Split(x, "/")
		if len(f) == 5 {
			x = f[0] + "/" + f[1] + "/" + f[3] + "/" + f[4]
		}
		parts = append(parts, x)
	}
	return strings.Join(parts, "|")
}

func main() {
	tier := lib.Tier()
	if rp := os.Getenv("VERIF_REPLAY"); rp != "" {
		replay(rp)
		return
	}
	if h1harness.IsWorker() {
		list, _, _ := scenarios(tier, h1harness.WorkerKeeps())
		h1harness.WorkerMain(4, 180*time.Second, func(idx int) *h1harness.CaseResult { return runCase(list[idx]) })
		return
	}
	_, total, fams := scenarios(tier, nil) // the parent only counts; workers materialise their own shares
	rep := lib.NewReport("C01", "model_checking")
	agg := h1harness.RunAll(16, total, fmt.Sprintf("%s/.build/c01/work-%d", lib.Root, os.Getpid()), func(idx int, stderr string) (string, string, interface{}) {
		one, _, _ := scenarios(tier, func(id int) bool { return id == idx })
		s := one[idx]
		return classOf(s, s.Conns[0][0]) + ":crash", fmt.Sprintf("scenario %s terminates the proxy process: %s", describe(s), tail(stderr, 1500)), s
	})
	if agg.EngineErr != "" {
		fmt.Fprintln(os.Stderr, "ENGINE ERROR:", agg.EngineErr)
		os.Exit(2)
	}
	agg.Apply(rep)
	if agg.Executed != total {
		rep.Incomplete = fmt.Sprintf("%d of %d scenarios executed", agg.Executed, total)
	}
	if n := rep.Counter("mem_tcp_disagreements"); n > 0 {
		rep.Incomplete = fmt.Sprintf("%d in-memory/TCP disagreements (harness fidelity problem, see harness_notes)", n)
		for _, n := range agg.Notes {
			fmt.Fprintln(os.Stderr, "NOTE:", n)
		}
	}
	rep.Coverage["families"] = fams
	rep.Coverage["states"] = total
	rep.Coverage["transitions"] = rep.Counter("exchanges") + rep.Counter("origin_requests")
	rep.Coverage["traces_validated_against_impl"] = rep.Counter("scenarios") + rep.Counter("tcp_runs")
	rep.Coverage["evaluations"] = rep.Counter("exchanges")
	rep.Coverage["distinct_nontrivial"] = rep.Counter("nontrivial")
	rep.Coverage["distinct_outcomes"] = len(agg.Keys["outcomes"])
	rep.Coverage["exhaustive"] = rep.Incomplete == ""
	rep.Coverage["rule"] = "every scenario of the families A (request body: 7 methods x 2 target forms x {no Expect, Expect} x body framings x sizes x write segmentations), B (request head: methods x target forms x 9 header sets x {1.1,1.0,1.0+keep-alive} x Connection: close x {no body, 1 byte}), C (response: {GET,HEAD,POST} x client Accept-Encoding {absent,gzip,identity} x protocol x every origin response shape: status x framing x size x header set x Connection: close, bodiless statuses, 1xx-then-final), X (12 request shapes x all response shapes), D (all sequences over the 6x5 reduced exchange alphabet, sequential and pipelined), G (gzip then a second exchange), E (large bodies), F (3 concurrent connections / a stalled reader on one proxy), Y (request trailers: 1 or 2 announced fields, judged), R (origin response in two bursts separated by 0/150/400 ms of silence), P (request 1 plus a prefix of request 2 in one write, cut at 7 points; response 1 must arrive before the rest is sent), T (SetTimeout(T), 4 requests separated by gaps < T/2 summing to > T; judged only if the measured gaps stayed below T/2), HB (request / response heads padded to exactly 1 MiB-4096, 1 MiB+4096, 3 MiB bytes - thorough also 1 MiB-1, 1 MiB, 1 MiB+1, 2, 6, 9 MiB - as 4 KiB lines of one name, 64 KiB lines of distinct names or a single field x request/response shapes x position: alone, first, second, pipelined), L (SetTimeout(3 s), dial installed through SetDial: every timeline of 2..3 - thorough 2..4 - exchanges with 0 or 1.2 s of origin silence before the head or inside the body and idle gaps of 0 or 0.7 s whose total exceeds the timeout, on one client connection or split over two consecutive ones, GET / POST / PUT; judged only if every measured gap and exchange stayed below T/2), OC (the origin reads one complete request and closes without a response byte: 8 methods x {no framing, Content-Length: 0, empty chunked body, 1-byte body} x 2 target forms x upstream connection {fresh, reused on the same client connection, reused by the next client connection} x a second arrival {answered, closed again}, followed by an ordinary exchange and a probe; the origin may see the request once - twice only where net/http's documented replay rule applies: idempotent method, no body, reused connection, as observed by the origin - and the client gets one complete response: the origin's if an arrival was answered, else a 5xx of the proxy) and, in the thorough tier, D2 (length 2 over the wide 8x8 alphabet), D3 (length 3 over the wide alphabet), D4 (length 4 over the reduced alphabet), all sequential and pipelined, S (origin response cut into several writes: head/body, one write per head line, byte by byte), I (2-3 client connections whose send/receive steps interleave in every scripted order), sizes around the 4096/8192/32768/65536 boundaries and the chunk-size lists [n], [1,n-1], [n-1,1], [1]*n, [4096...], [1,2,4,...], chunk extensions, trailers is executed once; scenarios are deduplicated after truncation at the first closing exchange. A scenario is non-trivial when it relays at least one non-empty body or more than one exchange."
	rep.Coverage["bounds"] = fmt.Sprintf("tier %s: %d scenarios (families %v); sizes %s; sequences of length <= %d; <= 3 client connections; bodies <= %s; header blocks <= %s; connection-age timelines: timeout 3000 ms, gaps {0,700} ms, origin silences {0,1200} ms", tier, total, fams,
		map[string]string{"quick": "{0,1,4097} + 300001", "thorough": "{0,1,4095..4097,8191..8193,32767..32769,65535..65537} + 300001, 1 MiB+3, 4 MiB"}[tier], map[string]int{"quick": 2, "thorough": 4}[tier], map[string]string{"quick": "300001 B", "thorough": "4 MiB"}[tier], map[string]string{"quick": "3 MiB", "thorough": "9 MiB"}[tier])
	rep.Assumptions = []string{
		"in-memory connections model TCP (bounded buffers, EOF after buffered bytes, EPIPE on write to a closed peer); a deterministic subset of scenarios is re-run over loopback TCP and any difference in outcome is reported as a harness problem (coverage.mem_tcp_disagreements)",
		"framing headers (Content-Length, Transfer-Encoding) and RFC 7230 6.1 hop-by-hop headers are not compared; bodies are compared after de-framing; header names are compared case-insensitively; headers added by the proxy/transport are allowed; announced request trailer fields must reach the origin with their values",
		"family OC: a request may reach the origin a second time only under the replay rule documented for net/http's Transport (idempotent method GET/HEAD/OPTIONS/TRACE, no body, the failed attempt travelled on a connection that had been used before); whether the failed attempt was on a reused connection is read from the origin log (it was not the first request of its origin connection), not assumed; when no arrival was answered the client must get a complete response with a 5xx status (a status below 500 would claim an outcome the origin never gave)",
		"a stalled exchange is recognised structurally (proxy and client both blocked in Read on the same connection with nothing in flight), confirmed over 3 polls; the hang deadline is 60 s",
		"goroutine schedules inside net/http's Transport are not enumerated (free-running)",
	}
	if judged := rep.Counter("conn_age_runs_judged"); rep.Incomplete == "" && judged*2 < int64(fams["L_upstream_conn_age"]) {
		rep.Incomplete = fmt.Sprintf("only %d of %d upstream-connection-age timelines ran within their time bounds (machine too slow): the family says nothing", judged, fams["L_upstream_conn_age"])
		rep.Coverage["exhaustive"] = false
	}
	if rep.Incomplete != "" {
		fmt.Fprintln(os.Stderr, "INCOMPLETE:", rep.Incomplete)
	}
	rep.Finish()
}

func tail(s string, n int) string {
	if i := strings.Index(s, "panic:"); i >= 0 {
		s = s[i:]
		if len(s) > n {
			return s[:n]
		}
		return s
	}
	if len(s) > n {
		return s[len(s)-n:]
	}
	return s
}

func replay(path string) {
	b, err := os.ReadFile(path)
	if err != nil {
		fmt.Println(err)
		os.Exit(2)
	}
	var rp struct {
		First struct {
			Replay Scenario `json:"replay"`
		} `json:"first"`
	}
	if err := json.Unmarshal(b, &rp); err != nil {
		fmt.Println(err)
		os.Exit(2)
	}
	s := rp.First.Replay
	fmt.Printf("replaying %s\n", describe(&s))
	kind := "mem"
	if k := os.Getenv("C01_REPLAY_KIND"); k != "" {
		kind = k
	}
	o := runScenario(&s, kind, 0)
	fmt.Printf("outcome: %v\n", o.outcome)
	for _, f := range o.findings {
		fmt.Printf("VIOLATION sig=%s exchange=%d: %s\n", sigOf(f), f.pos, f.detail)
	}
	if len(o.findings) > 0 {
		os.Exit(1)
	}
}
