// Families added in round 6 (see AUDIT.md "Round 6"). Same technique as the rest of the check: explicit finite spaces
// enumerated exhaustively, the real code executed on every element, the reference answer known by construction.
//
//	proxyPart (part 7) the certificate a client is PRESENTED by a real martian.Proxy in MITM mode: CONNECT authority
//	          spellings x Host header {same, different, absent} x SNI {absent, equal, different} x what the request
//	          modifier configured on the proxy does to the CONNECT request (nothing, rewrite URL.Host to a DNS / IPv4 /
//	          IPv6 upstream with or without port, rewrite other URL fields only). The proxy runs under the scheduler on
//	          simnet, the client performs a real crypto/tls handshake through the tunnel and the chain it received on the
//	          wire is judged for the host the CLIENT named (SNI, else the CONNECT authority) - never for where the proxy
//	          sends the traffic. Parts 1-6 call mitm.Config directly and cannot see which name the proxy hands to it.
//	caPart    (part 8) "the configured CA" as a dimension: CA key type {RSA, ECDSA P-256/P-384(/P-521), Ed25519} x who
//	          issued the CA certificate {itself, an RSA root, an ECDSA root, an Ed25519 root} x every signature algorithm
//	          the issuer's key can put on it (SHA-256/384/512 with RSA PKCS#1 and PSS, ECDSA, Ed25519). Each Config answers
//	          a fixed request list (mixed-case DNS with port, SNI on TLS(), IPv4:port, [IPv6]:port, bare IPv6, SNI over a
//	          fallback, a repeat, the two refusals) at the callback and with real TLS 1.3 and TLS 1.2 handshakes.
package main

import (
	"bufio"
	"crypto"
	"crypto/ecdsa"
	"crypto/ed25519"
	"crypto/elliptic"
	"crypto/rand"
	"crypto/rsa"
	"crypto/tls"
	"crypto/x509"
	"crypto/x509/pkix"
	"fmt"
	"math/big"
	"net"
	"net/http"
	"net/url"
	"strings"
	"time"

	"github.com/google/martian/v3/martianurl"
	"github.com/google/martian/v3/mitm"
	"github.com/google/martian/v3/zzverif/vrt"

	"verif/checks/pworld"
)

// ---------------------------------------------------------------------------------------------------
// part 7: the certificate presented by the proxy
// ---------------------------------------------------------------------------------------------------

// connectMod is what the proxy's request modifier does to the CONNECT request. Only the URL (where the proxy sends the
// traffic) is rewritten, with martian's own url.Modifier; the authority the client named is left alone.
type connectMod struct {
	Name     string
	URL      *url.URL
	HostName string // the host of the rewritten URL (port and brackets absent), "" when the host is not rewritten
	HostIP   bool
}

var connectMods = []connectMod{
	{"none", nil, "", false},
	{"url_host_dns_port", &url.URL{Host: "backend.internal:8443"}, "backend.internal", false},
	{"url_host_ipv4_port", &url.URL{Host: "10.9.8.7:8443"}, "10.9.8.7", true},
	{"url_host_ipv6_port", &url.URL{Host: "[2001:db8:9::1]:443"}, "2001:db8:9::1", true},
	{"url_host_dns_noport", &url.URL{Host: "Upstream.Internal"}, "Upstream.Internal", false},
	{"url_scheme_path_only", &url.URL{Scheme: "http", Path: "/rewritten"}, "", false},
}

func (m connectMod) class() string {
	switch {
	case m.URL == nil:
		return "no_modifier"
	case m.HostName != "":
		return "url_host_rewritten"
	}
	return "url_other_rewritten"
}

var hostHdrNames = []string{"same", "different", "absent"}

// pform is one way of writing a CONNECT authority: a host class and a port suffix.
type pform struct {
	Class string // dns | dns_mixed_case | ipv4 | ipv6_bracket_port | ipv6_bracket_noport | port_only (+ "_port_edge")
	Kind  int    // 0 dns, 1 mixed-case dns, 2 ipv4, 3 ipv6, 4 no host at all
	Port  string
	Var   int // which name of the class
}

// pstep is one tunnel: a client connects, sends a CONNECT and starts a TLS handshake inside the tunnel.
type pstep struct {
	Form    pform
	HostHdr int // index into hostHdrNames
	SNI     int // sniAbsent | sniEqual | sniDifferent
	TLS12   bool
}

// phist is one proxy (one configuration = one CONNECT modifier) serving one or two tunnels, one after the other.
type phist struct {
	Mod   int // index into connectMods
	Steps []pstep
}

func (c pstep) String() string {
	v := "TLS 1.3"
	if c.TLS12 {
		v = "TLS 1.2"
	}
	return fmt.Sprintf("{authority class %s port %q, Host header %s, SNI %s, %s client}", c.Form.Class, c.Form.Port, hostHdrNames[c.HostHdr], sniNames[c.SNI], v)
}

func (h phist) String() string {
	var st []string
	for _, s := range h.Steps {
		st = append(st, s.String())
	}
	return fmt.Sprintf("CONNECT modifier %s, tunnels %s", connectMods[h.Mod].Name, strings.Join(st, " then "))
}

func proxyForms(tier string) []pform {
	if tier != "thorough" {
		return []pform{
			{"dns", 0, ":443", 0}, {"dns", 0, "", 0}, {"dns_mixed_case", 1, ":8443", 0},
			{"ipv4", 2, ":443", 0}, {"ipv4", 2, "", 0},
			{"ipv6_bracket_port", 3, ":8443", 0}, {"ipv6_bracket_noport", 3, "", 0},
			{"port_only", 4, ":443", 0},
		}
	}
	var out []pform
	for kind, cl := range []string{"dns", "dns_mixed_case", "ipv4", "ipv6_bracket_port"} {
		for v := 0; v < 2; v++ {
			for _, p := range []string{"", ":443", ":8443", ":", ":80", ":65535"} {
				c := cl
				switch {
				case kind == 3 && p == "":
					c = "ipv6_bracket_noport"
				case p == ":" || p == ":80" || p == ":65535":
					c = strings.TrimSuffix(cl, "_port") + "_port_edge"
				}
				out = append(out, pform{c, kind, p, v})
			}
		}
	}
	return append(out, pform{"port_only", 4, ":443", 0}, pform{"port_only", 4, ":8443", 0})
}

// pairForms / pairMods: the reduced alphabet of the two-tunnel histories.
var pairForms = []pform{{"dns", 0, ":443", 0}, {"dns_mixed_case", 1, ":8443", 0}, {"ipv4", 2, ":443", 0}, {"ipv6_bracket_port", 3, ":8443", 0}, {"port_only", 4, ":443", 0}}

func proxyHistories(tier string) []phist {
	hdrs, vers := 2, 1
	if tier == "thorough" {
		hdrs, vers = 3, 2
	}
	var out []phist
	// one tunnel: the full product
	for _, f := range proxyForms(tier) {
		for h := 0; h < hdrs; h++ {
			for sni := sniAbsent; sni <= sniDifferent; sni++ {
				if sni == sniEqual && f.Kind >= 2 {
					continue // TLS clients send no SNI for IP literals; nothing to equal without a host
				}
				for m := range connectMods {
					for v := 0; v < vers; v++ {
						out = append(out, phist{m, []pstep{{f, h, sni, v == 1}}})
					}
				}
			}
		}
	}
	// two tunnels through the same proxy: every ordered pair over the reduced alphabet (form x SNI {absent, different}),
	// without a modifier and with one that rewrites the URL host (thorough: every modifier)
	mods := []int{0, 1}
	if tier == "thorough" {
		mods = mods[:0]
		for m := range connectMods {
			mods = append(mods, m)
		}
	}
	for _, m := range mods {
		for _, f1 := range pairForms {
			for _, s1 := range []int{sniAbsent, sniDifferent} {
				for _, f2 := range pairForms {
					for _, s2 := range []int{sniAbsent, sniDifferent} {
						out = append(out, phist{m, []pstep{{f1, 0, s1, false}, {f2, 0, s2, false}}})
					}
				}
			}
		}
	}
	return out
}

// proxyNames returns the CONNECT authority of case number u (unique per u, so every case meets a cold cache for its
// own names on a Config that is warm with everybody else's), the Host header host and the "different" SNI.
func proxyNames(f pform, u int) (auth named, hostHdr named, sniDiff string) {
	b0, b1, b2 := u>>16&255, u>>8&255, u&255
	var host string
	switch f.Kind {
	case 0:
		host = fmt.Sprintf("p%d-%d.proxy.example", u, f.Var)
		auth = named{host + f.Port, host, false}
	case 1:
		host = fmt.Sprintf("P%d-%d.ProXy.EXAMPLE", u, f.Var)
		auth = named{host + f.Port, host, false}
	case 2:
		host = fmt.Sprintf("%d.%d.%d.%d", 14+f.Var, b0, b1, b2)
		auth = named{host + f.Port, host, true}
	case 3:
		host = fmt.Sprintf("2001:db8:%x::%x:%x", 0xa+f.Var, u>>16&0xffff, u&0xffff)
		auth = named{"[" + host + "]" + f.Port, host, true}
	default:
		auth = named{f.Port, "", false}
	}
	hh := fmt.Sprintf("hdr%d.elsewhere.example", u)
	return auth, named{hh + ":443", hh, false}, fmt.Sprintf("sni%d.wins.example", u)
}

// bufConn lets the TLS client read through the bufio.Reader that consumed the CONNECT response.
type bufConn struct {
	net.Conn
	r *bufio.Reader
}

func (b *bufConn) Read(p []byte) (int, error) { return b.r.Read(p) }

type pobs struct {
	dialErr, connectErr string
	status              int
	hsErr               error
	hsDone              bool
	chain               [][]byte
	srvErr              error
}

func proxyPart(out *shardOut, e *env, hists []phist, shard, nshards int) {
	sets := map[string]bool{}
	for i, h := range hists {
		if nshards > 0 && i%nshards != shard {
			continue
		}
		m := connectMods[h.Mod]
		mc := m.class()
		type pref struct {
			auth, hdr named
			sni, req  string
			want      string
			wantIP    bool
			source    string
		}
		refs := make([]pref, len(h.Steps))
		for si, st := range h.Steps {
			rf := &refs[si]
			var sniDiff string
			rf.auth, rf.hdr, sniDiff = proxyNames(st.Form, (i+1)*4+si)
			switch st.SNI {
			case sniEqual:
				rf.sni = rf.auth.Name
			case sniDifferent:
				rf.sni = sniDiff
			}
			// reference (from the statement): SNI names the host; without SNI the CONNECT authority does; neither => refusal
			rf.source = "none"
			if rf.sni != "" {
				rf.want, rf.source = rf.sni, "sni"
			} else if rf.auth.Name != "" {
				rf.want, rf.wantIP, rf.source = rf.auth.Name, rf.auth.IP, "fallback"
			}
			rf.req = "CONNECT " + rf.auth.Text + " HTTP/1.1\r\n"
			switch st.HostHdr {
			case 0:
				rf.req += "Host: " + rf.auth.Text + "\r\n"
			case 1:
				rf.req += "Host: " + rf.hdr.Text + "\r\n"
			}
			rf.req += "\r\n"
		}
		var obs []pobs
		body := func() {
			obs = make([]pobs, len(h.Steps))
			w := pworld.NewWorld()
			w.Proxy.SetMITM(e.cfg)
			if m.URL != nil {
				u2 := *m.URL
				w.Proxy.SetRequestModifier(martianurl.NewModifier(&u2))
			}
			w.Start()
			for si, st := range h.Steps {
				o := &obs[si]
				e.cfg.SetHandshakeErrorCallback(func(_ *http.Request, err error) { o.srvErr = err })
				func() {
					cl, err := w.Dial(fmt.Sprintf("c06-%d", si))
					if err != nil {
						o.dialErr = err.Error()
						return
					}
					defer cl.C.Close()
					if err := cl.Send(refs[si].req); err != nil {
						o.connectErr = "write: " + err.Error()
						return
					}
					res, err := http.ReadResponse(cl.BR, &http.Request{Method: "CONNECT"})
					if err != nil {
						o.connectErr = "read: " + err.Error()
						return
					}
					o.status = res.StatusCode
					if res.StatusCode != 200 {
						return
					}
					// the client verifies nothing by itself: the chain it was presented is judged below, by the oracle
					ccfg := &tls.Config{InsecureSkipVerify: true, ServerName: refs[si].sni}
					if st.TLS12 {
						ccfg.MaxVersion = tls.VersionTLS12
					}
					tc := tls.Client(&bufConn{Conn: cl.C, r: cl.BR}, ccfg)
					o.hsErr = tc.Handshake()
					if o.hsErr == nil {
						o.hsDone = true
						for _, c := range tc.ConnectionState().PeerCertificates {
							o.chain = append(o.chain, c.Raw)
						}
					}
				}()
				// the proxy finishes with this tunnel (it sees the close) before the next client arrives
				vrt.WaitQuiescent()
			}
		}
		now := time.Now()
		r := vrt.Run(vrt.Config{}, nil, body)
		e.cfg.SetHandshakeErrorCallback(nil)
		out.Counters["proxy_histories"]++
		if len(h.Steps) > 1 {
			out.Counters["proxy_histories_two_tunnels"]++
		}
		out.Counters["proxy_points"] += int64(r.Points)
		replay := map[string]interface{}{"part": "proxy", "history": h, "text": h.String(), "ca": e.kind}
		if i%173 == 9 {
			out.Samples = append(out.Samples, map[string]interface{}{"part": "proxy", "history": h.String(), "connect": refs[0].req, "sni": refs[0].sni, "expect_name": refs[0].want})
		}
		if r.Outcome != "ok" {
			out.Counters["proxy_cases"] += int64(len(h.Steps))
			out.violate("proxy:execution:"+r.Outcome, fmt.Sprintf("proxy in MITM mode [%s CA], %s: %s %s", e.kind, h, r.Outcome, r.Panic), replay)
			continue
		}
		for si, st := range h.Steps {
			rf, o := refs[si], obs[si]
			out.Counters["proxy_cases"]++
			sets[fmt.Sprintf("%d|%s|%s|%d|%d|%s", si, st.Form.Class, st.Form.Port, st.HostHdr, st.SNI, m.Name)] = true
			if rf.source == "fallback" && (mc == "url_host_rewritten" || st.HostHdr == 1 || si > 0) || rf.source == "none" {
				// non-trivial: the authority the client named is not the only host name the proxy has at hand (or there is none)
				out.Counters["proxy_cases_nontrivial"]++
			}
			nth := ""
			if si > 0 {
				nth = fmt.Sprintf(" (tunnel #%d of this proxy; before it: %q with SNI %q)", si+1, refs[si-1].req, refs[si-1].sni)
			}
			scen := fmt.Sprintf("proxy in MITM mode [%s CA], CONNECT modifier %s%s, client sends %q then a %s ClientHello with SNI %q", e.kind, m.Name, nth, rf.req, map[bool]string{false: "TLS 1.3", true: "TLS 1.2"}[st.TLS12], rf.sni)
			replay := map[string]interface{}{"part": "proxy", "history": h, "text": h.String(), "step": si, "connect": rf.req, "sni": rf.sni, "expect_name": rf.want, "ca": e.kind}
			srv := ""
			if o.srvErr != nil {
				srv = " (proxy side: " + o.srvErr.Error() + ")"
			}
			switch {
			case o.dialErr != "" || o.connectErr != "":
				out.violate("proxy:connect:"+mc+":no_response", scen+": "+o.dialErr+o.connectErr, replay)
				continue
			case o.status != 200 && rf.source == "none":
				// a CONNECT that names no host is turned down before any handshake: refused
				out.Counters["proxy_refusals_expected"]++
				out.Counters["proxy_refused_at_connect"]++
				continue
			case o.status != 200:
				out.violate("proxy:connect:"+mc+":not_established", fmt.Sprintf("%s: the CONNECT was answered with status %d, no handshake possible", scen, o.status), replay)
				continue
			}
			out.Counters["proxy_handshakes"]++
			if rf.source == "none" {
				out.Counters["proxy_refusals_expected"]++
				if si > 0 {
					out.Counters["proxy_refusals_expected_after_a_tunnel"]++
				}
				if o.hsDone {
					what := "a certificate"
					if len(o.chain) > 0 {
						if l, err := x509.ParseCertificate(o.chain[0]); err == nil {
							what = fmt.Sprintf("a certificate with CN %q, DNS SANs %q, IP SANs %v", l.Subject.CommonName, l.DNSNames, l.IPAddresses)
						}
					}
					sig := "proxy_refuse:" + mc + ":handshake_completed"
					if si > 0 {
						// diagnosis: a certificate for a host of the previous tunnel of this proxy (its SNI or its authority)?
						// (signatures of one-tunnel defects stay the same)
						for _, p := range []named{{"", refs[si-1].want, refs[si-1].wantIP}, refs[si-1].auth} {
							if p.Name == "" {
								continue
							}
							if s2, _, _ := e.checkChain(o.chain, p.Name, p.IP, now); s2 == "" {
								sig = "proxy_refuse:certificate_of_earlier_tunnel"
								what += fmt.Sprintf(" -- a certificate for %q, a host of the previous tunnel of this proxy", p.Name)
								break
							}
						}
					}
					out.violate(sig, scen+": neither SNI nor a host in the CONNECT authority: the handshake must be refused, but it completed with "+what, replay)
				}
				continue
			}
			if !o.hsDone {
				sig := "proxy:" + st.Form.Class + ":" + rf.source + ":" + mc + ":handshake_failed"
				out.violate(sig, fmt.Sprintf("%s: the handshake must complete with a certificate for %q, client got: %v%s", scen, rf.want, o.hsErr, srv), replay)
				continue
			}
			sym, detail, _ := e.checkChain(o.chain, rf.want, rf.wantIP, now)
			if sym == "" {
				continue
			}
			sig := "proxy:" + st.Form.Class + ":" + rf.source + ":" + mc + ":" + sym
			if cs := certSig("", "", sym); strings.HasPrefix(cs, "cert:") {
				sig = cs
			}
			if sym == "name_mismatch" {
				// diagnosis: a (good) certificate for another host name the proxy had at hand? One signature per source then.
				if si > 0 {
					for _, p := range []named{{"", refs[si-1].want, refs[si-1].wantIP}, refs[si-1].auth} {
						if p.Name == "" {
							continue
						}
						if s2, _, _ := e.checkChain(o.chain, p.Name, p.IP, now); s2 == "" {
							sig = "proxy:" + rf.source + ":certificate_of_earlier_tunnel"
							detail += fmt.Sprintf(" -- it is a certificate for %q, a host of the previous tunnel of this proxy", p.Name)
							break
						}
					}
				}
				if m.HostName != "" {
					if s2, _, _ := e.checkChain(o.chain, m.HostName, m.HostIP, now); s2 == "" {
						sig = "proxy:" + rf.source + ":certificate_for_rewritten_url_host"
						detail += fmt.Sprintf(" -- it is a certificate for %q, the upstream host the CONNECT modifier put into the request URL, not the host the client named", m.HostName)
					}
				}
				if st.HostHdr == 1 {
					if s2, _, _ := e.checkChain(o.chain, rf.hdr.Name, false, now); s2 == "" {
						sig = "proxy:" + rf.source + ":certificate_for_host_header"
						detail += fmt.Sprintf(" -- it is a certificate for %q, the Host header, not the CONNECT authority", rf.hdr.Name)
					}
				}
			}
			out.violate(sig, scen+": presented chain: "+detail, replay)
		}
	}
	for s := range sets {
		out.add("proxy_inputs", s)
	}
}

// ---------------------------------------------------------------------------------------------------
// part 8: kinds of configured CA
// ---------------------------------------------------------------------------------------------------

type caKind struct {
	Issuer string // self | rsa_root | ecdsa_p256_root | ecdsa_p384_root | ed25519_root
	Key    string // the CA's own key: rsa2048 | ecdsa_p256 | ecdsa_p384 | ecdsa_p521 | ed25519
	Alg    string // signature algorithm ON the CA certificate (made with the issuer's key)
}

func (k caKind) String() string {
	return fmt.Sprintf("CA key %s, CA certificate issued by %s and signed with %s", k.Key, k.Issuer, k.Alg)
}

func keyType(name string) string {
	switch {
	case strings.HasPrefix(name, "rsa"):
		return "rsa"
	case strings.HasPrefix(name, "ecdsa"):
		return "ecdsa"
	}
	return "ed25519"
}

// relation is the scenario class of the signatures: how the CA's own key relates to the key that signed its certificate.
func (k caKind) relation() string {
	switch {
	case k.Issuer == "self":
		return "self_signed"
	case keyType(k.Issuer) == keyType(k.Key):
		return "intermediate_same_key_type"
	}
	return "intermediate_other_key_type"
}

var sigAlgs = map[string][]x509.SignatureAlgorithm{
	"rsa":     {x509.SHA256WithRSA, x509.SHA384WithRSA, x509.SHA512WithRSA, x509.SHA256WithRSAPSS, x509.SHA384WithRSAPSS, x509.SHA512WithRSAPSS},
	"ecdsa":   {x509.ECDSAWithSHA256, x509.ECDSAWithSHA384, x509.ECDSAWithSHA512},
	"ed25519": {x509.PureEd25519},
}

func algByName(n string) x509.SignatureAlgorithm {
	for _, as := range sigAlgs {
		for _, a := range as {
			if a.String() == n {
				return a
			}
		}
	}
	fatal("unknown signature algorithm %q", n)
	return 0
}

func caKinds(tier string) []caKind {
	issuers := []string{"self", "rsa_root", "ecdsa_p256_root", "ed25519_root"}
	keys := []string{"rsa2048", "ecdsa_p256", "ecdsa_p384", "ed25519"}
	if tier == "thorough" {
		issuers = []string{"self", "rsa_root", "ecdsa_p256_root", "ecdsa_p384_root", "ed25519_root"}
		keys = []string{"rsa2048", "ecdsa_p256", "ecdsa_p384", "ecdsa_p521", "ed25519"}
	}
	var out []caKind
	for _, is := range issuers {
		for _, k := range keys {
			signer := is
			if is == "self" {
				signer = k
			}
			for _, a := range sigAlgs[keyType(signer)] {
				out = append(out, caKind{is, k, a.String()})
			}
		}
	}
	return out
}

// caKeys hands out one key per name and process (RSA keys are expensive; which key it is does not matter).
type caKeys struct {
	keys  map[string]crypto.Signer
	roots map[string]*x509.Certificate
}

func (ks *caKeys) key(name string) crypto.Signer {
	if k, ok := ks.keys[name]; ok {
		return k
	}
	var k crypto.Signer
	var err error
	switch strings.TrimSuffix(name, "_root") {
	case "rsa", "rsa2048":
		k, err = rsa.GenerateKey(rand.Reader, 2048)
	case "ecdsa_p256":
		k, err = ecdsa.GenerateKey(elliptic.P256(), rand.Reader)
	case "ecdsa_p384":
		k, err = ecdsa.GenerateKey(elliptic.P384(), rand.Reader)
	case "ecdsa_p521":
		k, err = ecdsa.GenerateKey(elliptic.P521(), rand.Reader)
	case "ed25519":
		_, k, err = ed25519.GenerateKey(rand.Reader)
	default:
		fatal("unknown key kind %q", name)
	}
	if err != nil {
		fatal("key %s: %v", name, err)
	}
	if ks.keys == nil {
		ks.keys = map[string]crypto.Signer{}
	}
	ks.keys[name] = k
	return k
}

func caTemplate(cn string, serial int64) *x509.Certificate {
	return &x509.Certificate{
		SerialNumber:          big.NewInt(serial),
		Subject:               pkix.Name{CommonName: cn, Organization: []string{"Verif CA kinds"}},
		KeyUsage:              x509.KeyUsageDigitalSignature | x509.KeyUsageCertSign,
		ExtKeyUsage:           []x509.ExtKeyUsage{x509.ExtKeyUsageServerAuth},
		BasicConstraintsValid: true,
		IsCA:                  true,
		NotBefore:             time.Now().Add(-10 * 365 * 24 * time.Hour),
		NotAfter:              time.Now().Add(10 * 365 * 24 * time.Hour),
	}
}

// root returns the self-signed root of an issuer name (default algorithm of its key).
func (ks *caKeys) root(issuer string) *x509.Certificate {
	if c, ok := ks.roots[issuer]; ok {
		return c
	}
	k := ks.key(issuer)
	t := caTemplate("verif "+issuer, 0xC0600)
	raw, err := x509.CreateCertificate(rand.Reader, t, t, k.Public(), k)
	if err != nil {
		fatal("root %s: %v", issuer, err)
	}
	c, err := x509.ParseCertificate(raw)
	if err != nil {
		fatal("root %s: %v", issuer, err)
	}
	if ks.roots == nil {
		ks.roots = map[string]*x509.Certificate{}
	}
	ks.roots[issuer] = c
	return c
}

// build makes the CA certificate of a kind (harness side: a failure here is an engine error, not a verdict).
func (ks *caKeys) build(k caKind, idx int) (*x509.Certificate, crypto.Signer) {
	key := ks.key(k.Key)
	t := caTemplate(fmt.Sprintf("verif ca #%d %s under %s", idx, k.Key, k.Issuer), int64(0xC0601+idx))
	t.SignatureAlgorithm = algByName(k.Alg)
	parent, signer := t, key
	if k.Issuer != "self" {
		parent, signer = ks.root(k.Issuer), ks.key(k.Issuer)
		t.MaxPathLenZero = true // an intermediate that may only issue end-entity certificates
	}
	raw, err := x509.CreateCertificate(rand.Reader, t, parent, key.Public(), signer)
	if err != nil {
		fatal("CA certificate (%s): %v", k, err)
	}
	c, err := x509.ParseCertificate(raw)
	if err != nil {
		fatal("CA certificate (%s): %v", k, err)
	}
	if c.SignatureAlgorithm.String() != k.Alg {
		fatal("CA certificate (%s): signed with %s", k, c.SignatureAlgorithm)
	}
	return c, key
}

type caReq struct {
	Entry string // TLSForHost | TLS
	Host  string // fallback given to TLSForHost
	SNI   string
	Name  string // expected name, "" = refusal
	IP    bool
	What  string
}

func caRequests(idx int) []caReq {
	dns := fmt.Sprintf("Ca%d.Kind.Example", idx)
	sni := fmt.Sprintf("sni%d.kind.example", idx)
	over := fmt.Sprintf("over%d.kind.example", idx)
	v4 := fmt.Sprintf("15.%d.%d.%d", idx>>16&255, idx>>8&255, idx&255)
	v6 := fmt.Sprintf("2001:db8:c::%x:%x", idx>>16&0xffff, idx&0xffff)
	return []caReq{
		{"TLSForHost", dns + ":443", "", dns, false, "fallback_dns_mixed_case_port"},
		{"TLS", "", sni, sni, false, "sni_tls"},
		{"TLSForHost", v4 + ":8443", "", v4, true, "fallback_ipv4_port"},
		{"TLSForHost", "[" + v6 + "]:443", "", v6, true, "fallback_ipv6_bracket_port"},
		{"TLSForHost", v6, "", v6, true, "fallback_ipv6_bare"},
		{"TLSForHost", dns + ":443", over, over, false, "sni_over_fallback"},
		{"TLSForHost", dns + ":8443", "", dns, false, "fallback_again_other_port"},
		{"TLSForHost", "", "", "", false, "refusal_tlsforhost_empty"},
		{"TLS", "", "", "", false, "refusal_tls_no_sni"},
	}
}

func caPart(out *shardOut, kinds []caKind, shard, nshards int) {
	ks := &caKeys{}
	for i, k := range kinds {
		if nshards > 0 && i%nshards != shard {
			continue
		}
		ca, key := ks.build(k, i)
		out.Counters["ca_kinds"]++
		rel := k.relation()
		if rel != "self_signed" {
			out.Counters["ca_kinds_intermediate"]++
		}
		if rel == "intermediate_other_key_type" {
			out.Counters["ca_kinds_intermediate_other_key_type"]++
		}
		pfx := "ca_kind:" + rel + ":" + keyType(k.Key) + ":"
		cfg, err := mitm.NewConfig(ca, key)
		if err != nil {
			out.violate(pfx+"config_rejected", fmt.Sprintf("%s: mitm.NewConfig: %v", k, err), map[string]interface{}{"part": "ca_kind", "kind": k})
			continue
		}
		org := fmt.Sprintf("Verif CA-kind Org #%d", i)
		cfg.SetOrganization(org)
		e := &env{kind: "kind:" + k.Issuer + "/" + k.Key + "/" + k.Alg, ca: ca, cfg: cfg, org: org, capriv: key, roots: x509.NewCertPool()}
		e.roots.AddCert(ca)
		out.add("ca_kind_classes", rel+"|"+keyType(k.Key)+"|"+k.Alg)
		issued := map[*tls.Certificate]bool{}
		for _, rq := range caRequests(i) {
			var tc *tls.Config
			if rq.Entry == "TLS" {
				tc = cfg.TLS()
			} else {
				tc = cfg.TLSForHost(rq.Host)
			}
			scen := fmt.Sprintf("%s: %s(%q) sni=%q [%s]", k, rq.Entry, rq.Host, rq.SNI, rq.What)
			replay := map[string]interface{}{"part": "ca_kind", "kind": k, "text": k.String(), "entry": rq.Entry, "host": rq.Host, "sni": rq.SNI, "expect_name": rq.Name}
			now := time.Now()
			tlsc, err, pan := getCert(tc, rq.SNI)
			out.Counters["ca_requests"]++
			nviol := len(out.Violations)
			switch {
			case pan != "":
				out.violate(pfx+"panic", scen+": panic: "+pan, replay)
			case rq.Name == "":
				out.Counters["ca_refusals_expected"]++
				if err == nil {
					out.violate(pfx+"refusal_certificate_issued", scen+": neither SNI nor a fallback host: the handshake must be refused, but GetCertificate returned a certificate", replay)
				}
			case err != nil:
				out.violate(pfx+"error", scen+": GetCertificate failed: "+err.Error(), replay)
			default:
				if sym, detail, _ := e.checkCert(tlsc, rq.Name, rq.IP, now); sym != "" {
					out.violate(pfx+sym, scen+": "+detail, replay)
				}
				// (measured, not judged: the statement allows reuse while the certificate verifies, it does not demand it here;
				// the cache hit re-verifies the entry against the configured CA, intermediate or not)
				if issued[tlsc] {
					out.Counters["ca_cache_hits"]++
				}
				issued[tlsc] = true
			}
			if len(out.Violations) != nviol {
				continue // already flagged at the callback: not reported again under a handshake signature
			}
			for _, ver := range []uint16{0, tls.VersionTLS12} {
				out.Counters["ca_handshakes"]++
				res := handshake(e, tc, rq.SNI, rq.Name, rq.IP, ver)
				vn := map[uint16]string{0: "handshake", tls.VersionTLS12: "handshake_tls12"}[ver]
				switch {
				case rq.Name == "" && res == "":
					out.violate(pfx+vn+"_completed_without_name", scen+": TLS handshake completed although no name was available", replay)
				case rq.Name != "" && strings.HasPrefix(res, "panic"):
					out.violate(pfx+vn+"_panic", scen+": real TLS handshake: "+res, replay)
				case rq.Name != "" && res != "":
					out.violate(pfx+vn+"_failed", scen+": real TLS handshake (client trusts the configured CA): "+res, replay)
				}
			}
		}
		if i%7 == 3 {
			out.Samples = append(out.Samples, map[string]interface{}{"part": "ca_kind", "kind": k.String(), "class": rel})
		}
	}
}
