// C06 — forged certificates verify for the requested host under the configured CA.
//
// One binary (MODE gosim), three parts, every part runs the real mitm.Config:
//
//	Part 1 (inputs): every host spelling of an explicit finite pool (LDH names from a label pool, IPv4,
//	  IPv6 bare / bracketed with port / bracketed without port, with and without :443 / :8443, the empty host)
//	  x SNI {absent, equal, different} x entry point {TLSForHost, TLS}: GetCertificate is called with a
//	  synthetic ClientHelloInfo and the result is compared with a reference oracle written from the
//	  property statement (chain verifies under the CA for the requested name at the current time, SANs
//	  name exactly that host, organisation, key possession; refusal when no name is available). A
//	  deterministic subset additionally performs a real crypto/tls handshake over net.Pipe.
//	Part 2 (histories): the virtual clock origin is moved at issuance (vtime.SetBase) so that a cached
//	  certificate is valid / expired / not yet valid when it is requested again at offset 0; every
//	  history (prime A at -dA, prime B at -dB, then every request sequence up to length L over
//	  {A, A with port, B}) is compared with a model (reuse iff still valid, else fresh serial).
//	Part 3 (schedules): 2-3 threads request certificates concurrently on empty / primed / expired caches
//	  under the gosim scheduler, all interleavings of the cache lock operations (unbounded); every
//	  caller's certificate must verify for its own name.
//	Parts 4-6 and the extensions of parts 1-3 added by the audit (AUDIT.md) are in audit.go: one tls.Config
//	  answering hello sequences, setters interleaved with issuance, failing CA signer, edge spellings, expiry
//	  histories through the SNI entry points, TLS 1.2 handshakes, more host classes under the scheduler.
//	Parts 7-8 (round 6, round6.go): the certificate a client is presented by a real martian.Proxy in MITM mode
//	  (CONNECT authority x Host header x SNI x what the proxy's request modifier does to the CONNECT, one or two
//	  tunnels per proxy), and the kind of CA that is configured (self-signed / intermediate x key type x signature
//	  algorithm on the CA certificate).
package main

import (
	"crypto"
	"crypto/ecdsa"
	"crypto/elliptic"
	"crypto/rand"
	"crypto/tls"
	"crypto/x509"
	"crypto/x509/pkix"
	"encoding/json"
	"errors"
	"fmt"
	"math/big"
	"net"
	"os"
	"sort"
	"strings"
	"time"

	"github.com/google/martian/v3/log"
	"github.com/google/martian/v3/mitm"
	"github.com/google/martian/v3/zzverif/vrt"
	"github.com/google/martian/v3/zzverif/vtime"

	"verif/lib"
)

const nShards = 16

// ---------------------------------------------------------------------------------------------------
// environment: a CA, a mitm.Config, and the reference oracle for one returned certificate
// ---------------------------------------------------------------------------------------------------

type env struct {
	kind   string // "rsa" (mitm.NewAuthority) or "ecdsa" (harness built CA)
	ca     *x509.Certificate
	roots  *x509.CertPool
	cfg    *mitm.Config
	org    string
	capriv interface{}
}

func newRSAEnv(org string) *env {
	ca, priv, err := mitm.NewAuthority("verif.ca", "Verif Authority", 10*365*24*time.Hour)
	if err != nil {
		fatal("NewAuthority: %v", err)
	}
	return newEnv("rsa", ca, priv, org)
}

func newECEnv(org string) *env {
	priv, err := ecdsa.GenerateKey(elliptic.P256(), rand.Reader)
	if err != nil {
		fatal("ecdsa key: %v", err)
	}
	tmpl := &x509.Certificate{
		SerialNumber:          big.NewInt(0xC06),
		Subject:               pkix.Name{CommonName: "verif.ec.ca", Organization: []string{"Verif EC Authority"}},
		KeyUsage:              x509.KeyUsageDigitalSignature | x509.KeyUsageCertSign,
		ExtKeyUsage:           []x509.ExtKeyUsage{x509.ExtKeyUsageServerAuth},
		BasicConstraintsValid: true,
		IsCA:                  true,
		NotBefore:             time.Now().Add(-10 * 365 * 24 * time.Hour),
		NotAfter:              time.Now().Add(10 * 365 * 24 * time.Hour),
	}
	raw, err := x509.CreateCertificate(rand.Reader, tmpl, tmpl, priv.Public(), priv)
	if err != nil {
		fatal("ec ca: %v", err)
	}
	ca, err := x509.ParseCertificate(raw)
	if err != nil {
		fatal("ec ca parse: %v", err)
	}
	return newEnv("ecdsa", ca, priv, org)
}

func newEnv(kind string, ca *x509.Certificate, priv interface{}, org string) *env {
	cfg, err := mitm.NewConfig(ca, priv)
	if err != nil {
		fatal("NewConfig: %v", err)
	}
	e := &env{kind: kind, ca: ca, cfg: cfg, org: "Martian Proxy", capriv: priv}
	if org != "" {
		cfg.SetOrganization(org)
		e.org = org
	}
	e.roots = x509.NewCertPool()
	e.roots.AddCert(ca)
	return e
}

func fatal(f string, a ...interface{}) {
	fmt.Fprintf(os.Stderr, "ENGINE ERROR: "+f+"\n", a...)
	os.Exit(2)
}

// getCert calls the GetCertificate callback of a tls.Config produced by mitm; a panic is attributed to the case.
func getCert(tc *tls.Config, sni string) (c *tls.Certificate, err error, pan string) {
	defer func() {
		if r := recover(); r != nil {
			pan = fmt.Sprint(r)
		}
	}()
	if tc == nil || tc.GetCertificate == nil {
		return nil, errors.New("no GetCertificate callback"), ""
	}
	c, err = tc.GetCertificate(&tls.ClientHelloInfo{ServerName: sni})
	return
}

// checkCert is the oracle for one returned certificate: name is the requested host (port and brackets
// stripped by construction of the case, never by parsing), at is the time of the handshake.
// It returns "" or a symptom kind plus detail.
func (e *env) checkCert(tlsc *tls.Certificate, name string, isIP bool, at time.Time) (sym, detail string, leaf *x509.Certificate) {
	if tlsc == nil || len(tlsc.Certificate) == 0 {
		return "no_chain", "nil certificate or empty chain", nil
	}
	if sym, detail, leaf = e.checkChain(tlsc.Certificate, name, isIP, at); sym != "" {
		return sym, detail, leaf
	}
	signer, ok := tlsc.PrivateKey.(crypto.Signer)
	if !ok {
		return "key_mismatch", "certificate carries no usable private key", leaf
	}
	pub, ok := signer.Public().(interface{ Equal(crypto.PublicKey) bool })
	if !ok || !pub.Equal(leaf.PublicKey) {
		return "key_mismatch", "leaf public key does not match the private key held by the config", leaf
	}
	if tlsc.Leaf != nil && !tlsc.Leaf.Equal(leaf) {
		return "leaf_field_mismatch", "tls.Certificate.Leaf differs from the first chain element", leaf
	}
	return "", "", leaf
}

// checkChain is the part of the oracle that needs nothing but the DER chain (what a client sees on the wire): it
// verifies under the configured CA for the name at the time, names exactly that host, carries the organization.
// Possession of the key is then shown by the handshake itself.
func (e *env) checkChain(chain [][]byte, name string, isIP bool, at time.Time) (sym, detail string, leaf *x509.Certificate) {
	if len(chain) == 0 {
		return "no_chain", "empty chain", nil
	}
	leaf, err := x509.ParseCertificate(chain[0])
	if err != nil {
		return "unparsable_leaf", err.Error(), nil
	}
	inter := x509.NewCertPool()
	for _, raw := range chain[1:] {
		ic, err := x509.ParseCertificate(raw)
		if err != nil {
			return "unparsable_chain", err.Error(), leaf
		}
		inter.AddCert(ic)
	}
	if _, err := leaf.Verify(x509.VerifyOptions{Roots: e.roots, Intermediates: inter, DNSName: name, CurrentTime: at,
		KeyUsages: []x509.ExtKeyUsage{x509.ExtKeyUsageServerAuth}}); err != nil {
		sym = "verify_failed"
		var inv x509.CertificateInvalidError
		var he x509.HostnameError
		var ua x509.UnknownAuthorityError
		switch {
		case errors.As(err, &inv) && inv.Reason == x509.Expired:
			sym = "not_valid_at_time"
		case errors.As(err, &he):
			sym = "name_mismatch"
		case errors.As(err, &ua):
			sym = "unknown_authority"
		}
		return sym, fmt.Sprintf("x509 verify for %q at %s: %v (DNS SANs %q, IP SANs %v, NotBefore %s NotAfter %s)", name, at.UTC().Format(time.RFC3339), err,
			leaf.DNSNames, leaf.IPAddresses, leaf.NotBefore.Format(time.RFC3339), leaf.NotAfter.Format(time.RFC3339)), leaf
	}
	// "valid for exactly that host": one SAN of the right kind naming the host, nothing else.
	exact := len(leaf.EmailAddresses) == 0 && len(leaf.URIs) == 0
	if isIP {
		ip := net.ParseIP(name)
		exact = exact && len(leaf.DNSNames) == 0 && len(leaf.IPAddresses) == 1 && ip != nil && leaf.IPAddresses[0].Equal(ip)
	} else {
		exact = exact && len(leaf.IPAddresses) == 0 && len(leaf.DNSNames) == 1 && strings.EqualFold(leaf.DNSNames[0], name)
	}
	if !exact {
		return "san_not_exact", fmt.Sprintf("requested %q: DNS SANs %q, IP SANs %v, email %v, URIs %v", name, leaf.DNSNames, leaf.IPAddresses, leaf.EmailAddresses, leaf.URIs), leaf
	}
	if leaf.VerifyHostname("zz-unrelated.invalid") == nil || leaf.VerifyHostname("203.0.113.77") == nil {
		return "valid_for_other_host", "certificate also verifies for an unrelated host", leaf
	}
	if len(leaf.Subject.Organization) != 1 || leaf.Subject.Organization[0] != e.org {
		return "wrong_organization", fmt.Sprintf("organization %q, configured %q", leaf.Subject.Organization, e.org), leaf
	}
	return "", "", leaf
}

// certSig builds the signature of a defect of one issued certificate that does not depend on time or schedule:
// host-independent symptoms carry no spelling class, the others the class of the spelling and where the name came from.
func certSig(class, source, sym string) string {
	switch sym {
	case "wrong_organization", "key_mismatch", "leaf_field_mismatch", "unknown_authority", "no_chain", "unparsable_leaf", "unparsable_chain":
		return "cert:" + sym
	}
	return "inputs:" + class + ":" + source + ":" + sym
}

// ---------------------------------------------------------------------------------------------------
// Part 1: host spellings x SNI x entry point
// ---------------------------------------------------------------------------------------------------

type spelling struct {
	Text  string // what the client / CONNECT authority says
	Class string // dns | dns_mixed_case | ipv4 | ipv6_bare | ipv6_bracket_port | ipv6_bracket_noport | empty | port_only
}

// group = one requested host with all its spellings (the reference "stripped" name is known by construction).
type group struct {
	Name      string
	IsIP      bool
	Spellings []spelling
	Edge      bool // audit extension group (edgeGroups): every case also performs the real handshakes
}

var labelPool = []string{"a", "ab-c", "A", "ExAmPle", strings.Repeat("k", 31) + "-" + strings.Repeat("Z", 31), "xn--bcher-kva"}

var ipv4Pool = []string{"10.0.0.1", "127.0.0.1", "192.168.1.254", "8.8.8.8", "255.255.255.255", "0.0.0.0", "1.2.3.4"}

var ipv6Pool = []string{"::1", "::", "2001:db8::1", "2001:DB8::A", "fe80::1:2:3:4", "2001:db8:0:0:0:0:0:1", "::ffff:10.0.0.1", "1:2:3:4:5:6:7:8"}

var ports = []string{"", ":443", ":8443"}

func hasUpper(s string) bool { return strings.ToLower(s) != s }

func groups(maxLabels int) []group {
	var out []group
	// the empty host first (simplest)
	out = append(out, group{Name: "", Spellings: []spelling{{"", "empty"}, {":443", "port_only"}}})
	for n := 1; n <= maxLabels; n++ {
		lib.Sequences(len(labelPool), n, func(seq []int) {
			if len(seq) != n {
				return
			}
			parts := make([]string, n)
			for i, v := range seq {
				parts[i] = labelPool[v]
			}
			name := strings.Join(parts, ".")
			if len(name) > 253 {
				return
			}
			cl := "dns"
			if hasUpper(name) {
				cl = "dns_mixed_case"
			}
			g := group{Name: name}
			for _, p := range ports {
				g.Spellings = append(g.Spellings, spelling{name + p, cl})
			}
			out = append(out, g)
		})
	}
	for _, ip := range ipv4Pool {
		g := group{Name: ip, IsIP: true}
		for _, p := range ports {
			g.Spellings = append(g.Spellings, spelling{ip + p, "ipv4"})
		}
		out = append(out, g)
	}
	for _, ip := range ipv6Pool {
		g := group{Name: ip, IsIP: true}
		g.Spellings = append(g.Spellings, spelling{ip, "ipv6_bare"}, spelling{"[" + ip + "]:443", "ipv6_bracket_port"},
			spelling{"[" + ip + "]:8443", "ipv6_bracket_port"}, spelling{"[" + ip + "]", "ipv6_bracket_noport"})
		out = append(out, g)
	}
	// audit extension: edge spellings, appended last so that the indexes (sharding, handshake subset) of the groups above are unchanged
	return append(out, edgeGroups()...)
}

const (
	sniAbsent = iota
	sniEqual
	sniDifferent
)

var sniNames = []string{"absent", "equal", "different"}

type icase struct {
	Sp    spelling
	SNI   int
	Entry string // "TLSForHost" | "TLS"
}

func (g group) cases() []icase {
	var out []icase
	for _, sp := range g.Spellings {
		for sni := sniAbsent; sni <= sniDifferent; sni++ {
			if sni == sniEqual && (g.IsIP || g.Name == "") {
				continue // TLS clients do not send SNI for IP literals; there is no name to equal for the empty host
			}
			for _, en := range []string{"TLSForHost", "TLS"} {
				out = append(out, icase{sp, sni, en})
			}
		}
	}
	return out
}

func differentSNI(g group) string {
	if !g.IsIP && g.Name != "" && len(g.Name)+2 <= 253 {
		return "w." + g.Name
	}
	return "sni-wins.example"
}

type shardOut struct {
	Counters   map[string]int64
	Violations []lib.Violation
	Samples    []interface{}
	Sets       map[string][]string // named string sets, unioned by the parent (distinct counts)
	Incomplete string
}

func (o *shardOut) add(set, v string) {
	if o.Sets == nil {
		o.Sets = map[string][]string{}
	}
	o.Sets[set] = append(o.Sets[set], v)
}

func (o *shardOut) violate(sig, desc string, replay interface{}) {
	n := 0
	for _, v := range o.Violations {
		if v.Sig == sig {
			n++
		}
	}
	if n >= 5 {
		desc, replay = "", nil
	}
	o.Violations = append(o.Violations, lib.Violation{Sig: sig, Desc: desc, Replay: replay})
}

func inputsPart(out *shardOut, envs []*env, gs []group, shard, nshards int, hsEvery int) {
	sets := map[string]map[string]bool{"names": {}, "nontrivial": {}}
	for ei, e := range envs {
		seen := map[*tls.Certificate]bool{}
		for gi, g := range gs {
			if nshards > 0 && gi%nshards != shard {
				continue
			}
			cs := g.cases()
			off := 0
			if len(envs) > 0 {
				off = ei * len(cs) / len(envs)
			}
			for k := range cs {
				c := cs[(k+off)%len(cs)]
				sni := ""
				switch c.SNI {
				case sniEqual:
					sni = g.Name
				case sniDifferent:
					sni = differentSNI(g)
				}
				// reference: which name does the client get a certificate for?
				want, wantIP, source := "", false, "none"
				if sni != "" {
					want, source = sni, "sni"
				} else if c.Entry == "TLSForHost" && g.Name != "" {
					want, wantIP, source = g.Name, g.IsIP, "fallback"
				}
				replay := map[string]interface{}{"part": "inputs", "ca": e.kind, "entry": c.Entry, "host": c.Sp.Text, "sni": sni, "expect_name": want}
				var tc *tls.Config
				if c.Entry == "TLS" {
					tc = e.cfg.TLS()
				} else {
					tc = e.cfg.TLSForHost(c.Sp.Text)
				}
				now := time.Now()
				tlsc, err, pan := getCert(tc, sni)
				out.Counters["input_cases"]++
				out.Counters["getcertificate_calls"]++
				class := c.Sp.Class
				if source == "sni" {
					class = "sni_name"
				}
				scen := fmt.Sprintf("%s(%q) sni=%q [%s CA]", c.Entry, c.Sp.Text, sni, e.kind)
				nviol := len(out.Violations)
				switch {
				case pan != "":
					out.violate("inputs:"+class+":"+source+":panic", scen+": panic: "+pan, replay)
				case source == "none":
					out.Counters["input_refusals_expected"]++
					if err == nil {
						what := "a certificate"
						if tlsc != nil && tlsc.Leaf != nil {
							what = fmt.Sprintf("a certificate with CN %q, DNS SANs %q, IP SANs %v", tlsc.Leaf.Subject.CommonName, tlsc.Leaf.DNSNames, tlsc.Leaf.IPAddresses)
						}
						out.violate("refuse:"+strings.ToLower(c.Entry)+"_no_sni_no_host:certificate_issued",
							scen+": neither SNI nor a fallback host is available, the handshake must be refused, but GetCertificate returned "+what, replay)
					}
				case err != nil:
					out.violate("inputs:"+class+":"+source+":error", scen+": GetCertificate failed: "+err.Error(), replay)
				default:
					sym, detail, _ := e.checkCert(tlsc, want, wantIP, now)
					if sym != "" {
						out.violate(certSig(class, source, sym), scen+": "+detail, replay)
					}
					if seen[tlsc] {
						out.Counters["input_cache_hits"]++
					} else {
						out.Counters["input_fresh_certificates"]++
						seen[tlsc] = true
					}
				}
				sets["names"][strings.ToLower(want)] = true
				// non-trivial: the answer is not "use the plain lower-case DNS fallback host as is"
				if source == "sni" && c.Entry == "TLSForHost" || source == "fallback" && (c.Sp.Text != g.Name || g.IsIP || hasUpper(g.Name)) ||
					source == "none" && c.Entry == "TLSForHost" {
					sets["nontrivial"][fmt.Sprintf("%s|%s|%d", c.Entry, c.Sp.Text, c.SNI)] = true
				}
				if ei == 0 && k == 0 && gi%97 == 3 {
					out.Samples = append(out.Samples, map[string]interface{}{"part": "inputs", "case": scen, "expect_name": want})
				}
				// real handshake for a deterministic subset (first environment only)
				// (a case already flagged by the callback-level oracle is not reported a second time under a handshake signature)
				if ei == 0 && len(out.Violations) == nviol && (g.IsIP || g.Name == "" || g.Edge || gi%hsEvery == 0) {
					out.Counters["handshakes"]++
					res := handshake(e, tc, sni, want, wantIP, 0)
					if res == "" && source != "none" {
						// audit extension: the same server config must also complete a handshake with a client that stops at TLS 1.2
						out.Counters["handshakes"]++
						out.Counters["handshakes_tls12"]++
						if res12 := handshake(e, tc, sni, want, wantIP, tls.VersionTLS12); res12 != "" {
							sym := "failed"
							if strings.HasPrefix(res12, "panic") {
								sym = "panic"
							}
							// (host independent: the TLS 1.3 handshake of the very same case completed)
							out.violate("handshake_tls12:"+sym, scen+": real TLS handshake with a TLS 1.2 client (the TLS 1.3 one completed): "+res12, replay)
						}
					}
					switch {
					case source == "none" && res == "":
						out.violate("handshake:"+strings.ToLower(c.Entry)+"_no_sni_no_host:completed", scen+": TLS handshake completed although no name was available", replay)
					case source != "none" && res != "":
						sym := "failed"
						if strings.HasPrefix(res, "panic") {
							sym = "panic"
						}
						out.violate("handshake:"+class+":"+source+":"+sym, scen+": real TLS handshake: "+res, replay)
					}
				}
			}
		}
	}
	for s, m := range sets {
		for v := range m {
			out.add(s, v)
		}
	}
}

// handshake runs a real crypto/tls handshake over an in-memory pipe. Returns "" when it completed.
func handshake(e *env, srv *tls.Config, sni, want string, wantIP bool, maxVer uint16) string {
	cc, sc := net.Pipe()
	defer cc.Close()
	defer sc.Close()
	dl := time.Now().Add(30 * time.Second) // hang guard only
	cc.SetDeadline(dl)
	sc.SetDeadline(dl)
	ccfg := &tls.Config{RootCAs: e.roots, MaxVersion: maxVer}
	switch {
	case sni != "":
		ccfg.ServerName = sni
	case wantIP:
		ccfg.ServerName = want // crypto/tls sends no SNI for IP literals and verifies the IP SAN
	default:
		// a client that sends no SNI but still verifies the peer for the host it dialled
		ccfg.InsecureSkipVerify = true
		ccfg.VerifyConnection = func(cs tls.ConnectionState) error {
			if len(cs.PeerCertificates) == 0 {
				return errors.New("no peer certificate")
			}
			inter := x509.NewCertPool()
			for _, c := range cs.PeerCertificates[1:] {
				inter.AddCert(c)
			}
			_, err := cs.PeerCertificates[0].Verify(x509.VerifyOptions{Roots: e.roots, Intermediates: inter, DNSName: want})
			return err
		}
	}
	sdone := make(chan string, 1)
	go func() {
		defer func() {
			if r := recover(); r != nil {
				sc.Close()
				sdone <- fmt.Sprint("panic in server handshake: ", r)
			}
		}()
		s := tls.Server(sc, srv)
		if err := s.Handshake(); err != nil {
			sc.Close()
			sdone <- "server: " + err.Error()
			return
		}
		if _, err := s.Write([]byte("k")); err != nil {
			sc.Close()
			sdone <- "server write: " + err.Error()
			return
		}
		sdone <- ""
	}()
	c := tls.Client(cc, ccfg)
	cres := ""
	if err := c.Handshake(); err != nil {
		cres = "client: " + err.Error()
		cc.Close()
	} else {
		b := make([]byte, 1)
		if _, err := c.Read(b); err != nil || b[0] != 'k' {
			cres = fmt.Sprintf("client read: %v", err)
			cc.Close()
		}
	}
	sres := <-sdone
	if strings.HasPrefix(sres, "panic") {
		return sres
	}
	if cres != "" {
		if sres != "" {
			return cres + "; " + sres
		}
		return cres
	}
	return sres
}

// ---------------------------------------------------------------------------------------------------
// Part 2: expiry histories (clock origin moved at issuance)
// ---------------------------------------------------------------------------------------------------

// host classes of part 2/3: A, a second spelling of A carrying a port, and another host B.
var hostClasses = []string{"dns", "dns_mixed_case", "ipv4", "ipv6"}

func classNames(class, u int) (a, aPort, b string) {
	switch class {
	case 0:
		a = fmt.Sprintf("h%d.a.example", u)
		return a, a + ":443", fmt.Sprintf("h%d.b.example", u)
	case 1:
		a = fmt.Sprintf("H%d.ExAmPle.COM", u)
		return a, a + ":8443", strings.ToLower(a) // B is the same DNS name in another letter case
	case 2:
		a = fmt.Sprintf("10.%d.%d.%d", u>>16&255, u>>8&255, u&255)
		return a, a + ":8443", fmt.Sprintf("11.%d.%d.%d", u>>16&255, u>>8&255, u&255)
	default:
		a = fmt.Sprintf("2001:db8::%x:%x:1", u>>16&0xffff, u&0xffff)
		return a, "[" + a + "]:443", fmt.Sprintf("2001:db8::%x:%x:2", u>>16&0xffff, u&0xffff)
	}
}

// shift kinds: multiples of validity V and margin eps. The cached certificate issued at now-d is valid at now iff |d| < V.
type shiftKind struct {
	Name  string
	Valid bool
	D     func(v, eps time.Duration) time.Duration
}

var shiftKinds = []shiftKind{
	{"0", true, func(v, e time.Duration) time.Duration { return 0 }},
	{"V-eps", true, func(v, e time.Duration) time.Duration { return v - e }},
	{"V+eps", false, func(v, e time.Duration) time.Duration { return v + e }},
	{"2V", false, func(v, e time.Duration) time.Duration { return 2 * v }},
	{"-(V-eps)", true, func(v, e time.Duration) time.Duration { return -(v - e) }},
	{"-(V+eps)", false, func(v, e time.Duration) time.Duration { return -(v + e) }},
}

type history struct {
	Class    int
	Validity time.Duration
	Eps      time.Duration
	PrimeA   int   // index into shiftKinds, -1 = not primed
	PrimeB   int   // same for B
	Seq      []int // requests at offset 0: 0 = A, 1 = A with port, 2 = B
	// Via (audit extension): how the requests at offset 0 name the host. 0 = CONNECT authority (TLSForHost(host), no SNI);
	// 1 = SNI on a TLS() config; 2 = SNI overriding the fallback host of TLSForHost(another host). Priming is always via 0.
	Via int `json:",omitempty"`
}

var viaNames = []string{"fallback", "sni_tls", "sni_over_fallback"}

func (h history) String() string {
	pk := func(i int) string {
		if i < 0 {
			return "-"
		}
		return "now-(" + shiftKinds[i].Name + ")"
	}
	sym := []string{"A", "A:port", "B"}
	var s []string
	for _, v := range h.Seq {
		s = append(s, sym[v])
	}
	via := ""
	if h.Via != 0 {
		via = " via=" + viaNames[h.Via]
	}
	return fmt.Sprintf("class=%s V=%s eps=%s issueA@%s issueB@%s then@now %v%s", hostClasses[h.Class], h.Validity, h.Eps, pk(h.PrimeA), pk(h.PrimeB), s, via)
}

type vparam struct{ V, Eps time.Duration }

func histories(tier string) []history {
	params := []vparam{{time.Hour, time.Minute}}
	maxLen := 3
	if tier == "thorough" {
		params = []vparam{{time.Hour, time.Minute}, {24 * time.Hour, 20 * time.Second}, {10 * time.Minute, time.Minute}}
		maxLen = 4
	}
	var out []history
	for _, p := range params {
		for class := range hostClasses {
			for pa := -1; pa < len(shiftKinds); pa++ {
				for pb := -1; pb < len(shiftKinds); pb++ {
					lib.Sequences(3, maxLen, func(seq []int) {
						if len(seq) == 0 {
							return
						}
						out = append(out, history{Class: class, Validity: p.V, Eps: p.Eps, PrimeA: pa, PrimeB: pb, Seq: append([]int(nil), seq...)})
					})
				}
			}
		}
	}
	// audit extension (appended, the indexes of the histories above are unchanged): the same histories with the
	// requests at offset 0 arriving through the other two ways a client can name a host, and a non-default validity in quick
	return append(out, auditHistories(tier)...)
}

type mentry struct {
	shift time.Duration // issued at now - shift
	obj   *tls.Certificate
}

func absd(d time.Duration) time.Duration {
	if d < 0 {
		return -d
	}
	return d
}

// runHistory executes one history inside a scheduler execution (so that mitm's time.Now is the virtual clock).
func runHistory(out *shardOut, e *env, h history, u int, states map[string]bool) {
	a, aPort, b := classNames(h.Class, u)
	isIP := h.Class >= 2
	spell := []string{a, aPort, b}
	name := []string{a, a, b}
	spClass := [][]string{{"dns", "dns", "dns"}, {"dns_mixed_case", "dns_mixed_case", "dns"}, {"ipv4", "ipv4", "ipv4"}, {"ipv6_bare", "ipv6_bracket_port", "ipv6_bare"}}[h.Class]
	e.cfg.SetValidity(h.Validity)
	type viol struct{ sig, desc string }
	var viols []viol
	var steps, fresh, reused int
	var stalled bool
	var st []string
	body := func() {
		viols, steps, fresh, reused, st = nil, 0, 0, 0, nil
		now := time.Now().Truncate(time.Second)
		model := map[string]*mentry{}
		serials := map[string]bool{}
		returned := map[*tls.Certificate]time.Duration{} // every object handed out in this history -> issue shift
		request := func(idx int, shift time.Duration, phase string) {
			vtime.SetBase(now.Add(-shift))
			t := vtime.Now()
			// model expectation (from the statement): cached entry for exactly this host spelling still valid at t?
			me := model[name[idx]]
			kind := "none"
			if me != nil {
				switch d := me.shift - shift; {
				case absd(d) < h.Validity:
					kind = "valid"
				case d > 0:
					kind = "expired"
				default:
					kind = "not_yet_valid"
				}
			}
			// another cached spelling of the same DNS name in a different letter case: reuse is allowed, not required
			dontCare := false
			for k := range model {
				if k != name[idx] && strings.EqualFold(k, name[idx]) {
					dontCare = true
				}
			}
			via := h.Via
			if shift != 0 || strings.HasPrefix(phase, "issue-") {
				via = 0
			}
			var tlsc *tls.Certificate
			var err error
			var pan string
			switch via {
			case 1:
				tlsc, err, pan = getCert(e.cfg.TLS(), spell[idx])
			case 2:
				tlsc, err, pan = getCert(e.cfg.TLSForHost(fmt.Sprintf("other%d.via.example:443", u)), spell[idx])
			default:
				tlsc, err, pan = getCert(e.cfg.TLSForHost(spell[idx]), "")
			}
			steps++
			scen := fmt.Sprintf("%s: request %q at %s (cached entry: %s)", h, spell[idx], phase, kind)
			pfx := "expiry:" + kind + ":"
			if h.Via != 0 {
				pfx = "expiry_" + viaNames[h.Via] + ":" + kind + ":"
			}
			switch {
			case pan != "":
				viols = append(viols, viol{pfx + "panic", scen + ": panic: " + pan})
				return
			case err != nil:
				viols = append(viols, viol{pfx + "error", scen + ": " + err.Error()})
				return
			}
			sym, detail, leaf := e.checkCert(tlsc, name[idx], isIP, t)
			if sym == "not_valid_at_time" {
				viols = append(viols, viol{pfx + sym, scen + ": " + detail})
			} else if sym != "" {
				if via != 0 {
					if cs := certSig("", "", sym); strings.HasPrefix(cs, "cert:") {
						viols = append(viols, viol{cs, scen + ": " + detail})
					} else {
						viols = append(viols, viol{"expiry_" + viaNames[h.Via] + ":issued:" + sym, scen + ": " + detail})
					}
				} else {
					viols = append(viols, viol{certSig(spClass[idx], "fallback", sym), scen + ": " + detail})
				}
			}
			issuedAt, known := returned[tlsc]
			switch {
			case kind == "valid" && !dontCare && tlsc != me.obj:
				if sym == "" {
					viols = append(viols, viol{pfx + "not_reused", scen + ": the cached certificate still verifies but a different certificate was returned"})
				}
			case kind != "valid" && !dontCare && known:
				if sym == "" {
					viols = append(viols, viol{pfx + "stale_object_reused", scen + ": a previously returned certificate object was returned although a fresh one is due"})
				}
			}
			if !known {
				fresh++
				if leaf != nil {
					s := leaf.SerialNumber.String()
					if serials[s] && sym == "" {
						viols = append(viols, viol{pfx + "serial_repeated", scen + ": fresh certificate repeats serial " + s})
					}
					serials[s] = true
				}
				returned[tlsc] = shift
				model[name[idx]] = &mentry{shift: shift, obj: tlsc}
			} else {
				reused++
				model[name[idx]] = &mentry{shift: issuedAt, obj: tlsc}
			}
			ms := func(n string) string {
				m := model[n]
				if m == nil {
					return "none"
				}
				if absd(m.shift-shift) < h.Validity {
					return "valid"
				}
				return "invalid"
			}
			st = append(st, ms(a)+"/"+ms(b))
		}
		if h.PrimeA >= 0 {
			request(0, shiftKinds[h.PrimeA].D(h.Validity, h.Eps), "issue-A")
		}
		if h.PrimeB >= 0 {
			request(2, shiftKinds[h.PrimeB].D(h.Validity, h.Eps), "issue-B")
		}
		for i, s := range h.Seq {
			request(s, 0, fmt.Sprintf("now#%d", i+1))
		}
		vtime.SetBase(now)
		stalled = time.Since(now) > h.Eps/2+time.Second
	}
	r := vrt.Run(vrt.Config{}, nil, body)
	out.Counters["expiry_histories"]++
	if h.Via != 0 {
		out.Counters["expiry_histories_via_sni"]++
	}
	out.Counters["expiry_steps"] += int64(steps)
	out.Counters["expiry_fresh"] += int64(fresh)
	out.Counters["expiry_reused"] += int64(reused)
	if h.PrimeA >= 2 || h.PrimeB >= 2 {
		out.Counters["expiry_histories_with_invalid_cached_entry"]++
	}
	for _, s := range st {
		states[s] = true
	}
	replay := map[string]interface{}{"part": "expiry", "history": h, "text": h.String(), "hosts": spell}
	if r.Outcome != "ok" {
		out.violate("expiry:execution:"+r.Outcome, h.String()+": "+r.Outcome+" "+r.Panic, replay)
		return
	}
	if stalled {
		out.Counters["expiry_histories_stalled"]++
		out.Incomplete = "a history took longer than eps/2 of wall clock; its verdict was discarded"
		return
	}
	for _, v := range viols {
		out.violate(v.sig, v.desc, replay)
	}
}

func expiryPart(out *shardOut, e *env, hs []history, shard, nshards int) {
	states := map[string]bool{}
	u := 0
	for i, h := range hs {
		if nshards > 0 && i%nshards != shard {
			continue
		}
		u++
		runHistory(out, e, h, u, states)
		if i%4001 == 17 {
			out.Samples = append(out.Samples, map[string]interface{}{"part": "expiry", "history": h.String()})
		}
	}
	for s := range states {
		out.add("expiry_states", s)
	}
	e.cfg.SetValidity(time.Hour)
}

// ---------------------------------------------------------------------------------------------------
// Part 3: concurrent requesters under the gosim scheduler
// ---------------------------------------------------------------------------------------------------

// request symbols of a thread program: 0 = A via TLSForHost(A), 1 = A via TLSForHost(A:port), 2 = B via SNI on TLS()
type scenario struct {
	Class   int
	PrimeA  int // 0 none, 1 valid (issued V-eps ago), 2 expired (issued V+eps ago)
	PrimeB  int
	Threads [][]int
}

var primeNames = []string{"none", "valid", "expired"}

func (s scenario) String() string {
	sym := []string{"A", "A:port", "B(sni)"}
	var ts []string
	for _, p := range s.Threads {
		var o []string
		for _, v := range p {
			o = append(o, sym[v])
		}
		ts = append(ts, "["+strings.Join(o, ",")+"]")
	}
	return fmt.Sprintf("class=%s cacheA=%s cacheB=%s threads=%s", hostClasses[s.Class], primeNames[s.PrimeA], primeNames[s.PrimeB], strings.Join(ts, " "))
}

func programs(maxLen int) [][]int {
	var out [][]int
	lib.Sequences(3, maxLen, func(seq []int) {
		if len(seq) > 0 {
			out = append(out, append([]int(nil), seq...))
		}
	})
	return out
}

// scenarios lists the thread sets. Threads are symmetric (every interleaving is enumerated), so thread sets are
// multisets: programs appear in non-decreasing index order.
func scenarios(tier string) []scenario {
	var out []scenario
	p1, p2 := programs(1), programs(2)
	var len2 [][]int
	for _, p := range p2 {
		if len(p) == 2 {
			len2 = append(len2, p)
		}
	}
	type pr struct{ a, b int }
	primes := []pr{{0, 0}, {1, 0}, {2, 0}}
	classes := []int{0}
	if tier == "thorough" {
		primes = []pr{{0, 0}, {1, 0}, {2, 0}, {0, 2}, {1, 2}, {2, 2}}
		classes = []int{0, 3}
	}
	for _, cl := range classes {
		for _, p := range primes {
			// three threads, one request each (includes {A,B,A})
			for i, x := range p1 {
				for j, y := range p1[i:] {
					for _, z := range p1[i+j:] {
						out = append(out, scenario{cl, p.a, p.b, [][]int{x, y, z}})
					}
				}
			}
			// two threads, one or two requests each
			for i, x := range p2 {
				for _, y := range p2[i:] {
					out = append(out, scenario{cl, p.a, p.b, [][]int{x, y}})
				}
			}
		}
	}
	if tier == "thorough" {
		// one thread with two requests and two single requesters
		for _, p := range []pr{{0, 0}, {1, 0}, {2, 0}, {2, 2}} {
			for _, x := range len2 {
				for i, y := range p1 {
					for _, z := range p1[i:] {
						out = append(out, scenario{0, p.a, p.b, [][]int{x, y, z}})
					}
				}
			}
		}
	}
	// audit extension (appended, indexes above unchanged): the host classes the tiers above never run concurrently
	// (quick: everything but dns; thorough: mixed-case DNS and IPv4), two threads on an empty cache and on an expired A
	xcl, xprog := []int{1, 2, 3}, p1
	if tier == "thorough" {
		xcl, xprog = []int{1, 2}, p2
	}
	for _, cl := range xcl {
		for _, p := range []pr{{0, 0}, {2, 0}} {
			for i, x := range xprog {
				for _, y := range xprog[i:] {
					out = append(out, scenario{cl, p.a, p.b, [][]int{x, y}})
				}
			}
		}
	}
	return out
}

type cres struct {
	thread, op int
	name       string
	isIP       bool
	sym        int
	tlsc       *tls.Certificate
	err        error
	pan        string
	done       bool
}

func concPart(out *shardOut, e *env, scen []scenario, shard, nshards int, deadline time.Time) {
	const V, eps = time.Hour, time.Minute
	e.cfg.SetValidity(V)
	u, sinceRenew := 0, 0
	for si, sc := range scen {
		if nshards > 0 && si%nshards != shard {
			continue
		}
		sc := sc
		if sinceRenew > 6000 {
			// bound the memory held by the certificate cache: continue on a fresh Config (same CA)
			e = newEnv(e.kind, e.ca, e.capriv, e.org)
			e.cfg.SetValidity(V)
			sinceRenew = 0
			out.Counters["conc_config_renewals"]++
		}
		type viol struct{ sig, desc string }
		var viols []viol
		rechecked := false
		body := func() {
			viols = nil
			u++
			a, aPort, b := classNames(sc.Class, 1<<20+u)
			isIP := sc.Class >= 2
			now := time.Now().Truncate(time.Second)
			primed := map[string]*tls.Certificate{}
			for i, p := range []int{sc.PrimeA, sc.PrimeB} {
				if p == 0 {
					continue
				}
				d := V - eps
				if p == 2 {
					d = V + eps
				}
				vtime.SetBase(now.Add(-d))
				n := []string{a, b}[i]
				c, err, pan := getCert(e.cfg.TLSForHost(n), "")
				if err != nil || pan != "" || c == nil {
					viols = append(viols, viol{"conc:prime:error", fmt.Sprintf("%s: priming %q failed: %v %s", sc, n, err, pan)})
					return
				}
				if p == 1 {
					primed[n] = c
				}
			}
			vtime.SetBase(now)
			var results []*cres
			var ths []*vrt.Thread
			for ti, prog := range sc.Threads {
				ti, prog := ti, prog
				rs := make([]*cres, len(prog))
				for i, s := range prog {
					rs[i] = &cres{thread: ti, op: i, sym: s, name: []string{a, a, b}[s], isIP: isIP}
					results = append(results, rs[i])
				}
				ths = append(ths, vrt.Go(func() {
					for i, s := range prog {
						var tc *tls.Config
						sni := ""
						switch s {
						case 0:
							tc = e.cfg.TLSForHost(a)
						case 1:
							tc = e.cfg.TLSForHost(aPort)
						default:
							tc = e.cfg.TLS()
							sni = b
							if isIP {
								tc = e.cfg.TLSForHost(b)
								sni = ""
							}
						}
						rs[i].tlsc, rs[i].err, rs[i].pan = getCert(tc, sni)
						rs[i].done = true
					}
				}))
			}
			// one blocking point for the harness root (joining thread by thread would only multiply the
			// interleavings by the positions of the root's own steps)
			vrt.WaitUntil("join-all", func() bool {
				for _, t := range ths {
					if !t.Done() {
						return false
					}
				}
				return true
			})
			t := vtime.Now()
			type vkey struct {
				c *tls.Certificate
				n string
			}
			verified := map[vkey]string{} // oracle results per (object, name): the same object is often handed to several callers
			check := func(c *tls.Certificate, n string, ip bool) (string, string) {
				if v, ok := verified[vkey{c, n}]; ok {
					return v, "(same object as above)"
				}
				sym, detail, _ := e.checkCert(c, n, ip, t)
				verified[vkey{c, n}] = sym
				return sym, detail
			}
			objs := map[*tls.Certificate]int{}
			pfx := "conc:"
			for _, r := range results {
				what := fmt.Sprintf("%s: thread %d request %d for %q", sc, r.thread, r.op, r.name)
				verdict := "ok"
				switch {
				case !r.done:
					verdict = "not_returned"
				case r.pan != "":
					verdict = "panic"
					what += ": " + r.pan
				case r.err != nil:
					verdict = "error"
					what += ": " + r.err.Error()
				default:
					sym, detail := check(r.tlsc, r.name, r.isIP)
					if sym != "" {
						verdict = sym
						what += ": " + detail
					} else if pc := primed[r.name]; pc != nil && pc != r.tlsc {
						verdict = "valid_cached_not_reused"
						what += ": the cached certificate is still valid and nobody replaces it, yet another certificate was returned"
					}
				}
				if verdict != "ok" {
					sig := pfx + verdict
					if cs := certSig("", "", verdict); strings.HasPrefix(cs, "cert:") {
						sig = cs
					}
					viols = append(viols, viol{sig, what})
				}
				id, ok := objs[r.tlsc]
				if !ok {
					id = len(objs)
					objs[r.tlsc] = id
				}
				rel := fmt.Sprintf("obj%d", id)
				if r.tlsc != nil && primed[r.name] == r.tlsc {
					rel = "primed"
				}
				vrt.Log("t%d.%d sym%d -> %s %s", r.thread, r.op, r.sym, verdict, rel)
			}
			// the cache left behind still answers correctly
			for _, n := range []string{a, b} {
				c, err, pan := getCert(e.cfg.TLSForHost(n), "")
				v := "ok"
				if err != nil || pan != "" {
					v = "error"
				} else if sym, _ := check(c, n, isIP); sym != "" {
					v = sym
				}
				if v != "ok" {
					sig := pfx + "after:" + v
					if cs := certSig("", "", v); strings.HasPrefix(cs, "cert:") {
						sig = cs
					}
					viols = append(viols, viol{sig, fmt.Sprintf("%s: sequential request for %q after the threads finished: %s", sc, n, v)})
				}
				vrt.Log("after %s", v)
			}
		}
		st := vrt.Explore(vrt.ExploreConfig{Bound: -1, Deadline: deadline, Recheck: 500}, body, func(prefix []int, r *vrt.Result) bool {
			replay := map[string]interface{}{"part": "conc", "scenario": sc, "text": sc.String(), "schedule": r.ChoiceSeq(), "log": r.Log}
			if r.Outcome != "ok" {
				out.violate("conc:execution:"+r.Outcome, fmt.Sprintf("%s schedule %v: %s %s", sc, r.ChoiceSeq(), r.Outcome, r.Panic), replay)
				return true
			}
			if len(viols) > 0 {
				vs := append([]viol(nil), viols...)
				if !rechecked {
					// determinism discipline: the first violating schedule of a scenario is re-executed and must observe the same log
					rechecked = true
					for k := 0; k < 3; k++ {
						if r2 := vrt.Run(vrt.Config{}, r.ChoiceSeq(), body); r2.Fingerprint() != r.Fingerprint() {
							fatal("%s: violating schedule %v is not reproducible: %v vs %v", sc, r.ChoiceSeq(), r.Log, r2.Log)
						}
					}
					out.Counters["conc_violating_schedules_reexecuted"]++
				}
				for _, v := range vs {
					out.violate(v.sig, fmt.Sprintf("%s [schedule %v]", v.desc, r.ChoiceSeq()), replay)
				}
			}
			return len(out.Violations) < 200
		})
		if st.EngineError != "" {
			fatal("%s: %s", sc, st.EngineError)
		}
		sinceRenew += st.Execs
		if os.Getenv("C06_DEBUG") != "" {
			fmt.Fprintf(os.Stderr, "scenario %d %s: execs=%d maxpoints=%d maxchoices=%d distinct=%d\n", si, sc, st.Execs, st.MaxPoints, st.MaxChoices, st.DistinctLogs)
		}
		out.Counters["conc_scenarios"]++
		out.Counters["conc_executions"] += int64(st.Execs)
		out.Counters["conc_points"] += st.Points
		out.Counters["conc_distinct_outcome_logs"] += int64(st.DistinctLogs)
		if st.DistinctLogs > 1 {
			out.Counters["conc_scenarios_with_schedule_dependent_outcome"]++
		}
		if int64(st.Execs) > out.Counters["conc_max_interleavings_one_scenario"] {
			out.Counters["conc_max_interleavings_one_scenario"] = int64(st.Execs)
		}
		if !st.Exhaustive {
			out.Incomplete = "deadline or violation cap reached during the concurrent part"
		}
		if si%211 == 5 {
			out.Samples = append(out.Samples, map[string]interface{}{"part": "conc", "scenario": sc.String(), "interleavings": st.Execs, "distinct_outcome_logs": st.DistinctLogs})
		}
		if len(out.Violations) >= 200 || !st.Exhaustive {
			break
		}
	}
}

// ---------------------------------------------------------------------------------------------------

func main() {
	tier := lib.Tier()
	log.SetLevel(log.Silent)
	maxLabels, nRSA, hsEvery := 3, 3, 4
	if tier == "thorough" {
		maxLabels, nRSA, hsEvery = 4, 6, 3
	}
	if os.Getenv("VERIF_REPLAY") != "" {
		replay(os.Getenv("VERIF_REPLAY"))
		return
	}
	gs := groups(maxLabels)
	hs := histories(tier)
	scen := scenarios(tier)
	rh, sh, fh := reuseHistories(tier), setterHistories(tier), faultHistories(tier)
	pcs, cks := proxyHistories(tier), caKinds(tier) // round 6
	if i, n := lib.ShardEnv(); n > 0 {
		out := &shardOut{Counters: map[string]int64{}}
		var envs []*env
		for k := 0; k < nRSA; k++ {
			org := fmt.Sprintf("Verif Org C06 #%d, Ltd.", k)
			if k == 1 {
				org = "" // default organisation
			}
			envs = append(envs, newRSAEnv(org))
		}
		ec := newECEnv("Verif EC Org")
		envs = append(envs, ec)
		t0 := time.Now()
		lap := func(what string) {
			if os.Getenv("C06_DEBUG") != "" {
				fmt.Fprintf(os.Stderr, "shard %d: %s done after %.1fs\n", i, what, time.Since(t0).Seconds())
			}
		}
		// development aid: C06_ONLY=<comma separated part names> runs only those parts (the verdict of a normal run uses all)
		on := func(part string) bool {
			o := os.Getenv("C06_ONLY")
			return o == "" || strings.Contains(","+o+",", ","+part+",")
		}
		if on("inputs") {
			inputsPart(out, envs, gs, i, n, hsEvery)
			lap("inputs")
		}
		if on("expiry") {
			expiryPart(out, envs[0], hs, i, n)
			lap("expiry")
		}
		// audit extensions (parts 4-6)
		if on("reuse") {
			reusePart(out, envs[0], rh, i, n, 8)
			if tier == "thorough" {
				reusePart(out, ec, rh, i, n, 8)
			}
			lap("reuse")
		}
		if on("setters") {
			settersPart(out, newEnv(ec.kind, ec.ca, ec.capriv, ""), sh, i, n)
			lap("setters")
		}
		if on("signer") {
			signerFaultPart(out, ec, fh, i, n)
			lap("signer faults")
		}
		// round 6 (parts 7-8): the certificate presented by a real proxy; kinds of configured CA
		if on("proxy") {
			proxyPart(out, ec, pcs, i, n)
			if tier == "thorough" {
				proxyPart(out, envs[0], pcs, i, n)
			}
			lap("proxy")
		}
		if on("ca") {
			caPart(out, cks, i, n)
			lap("ca kinds")
		}
		if on("conc") {
			dl := time.Now().Add(40 * time.Second)
			if tier == "thorough" {
				dl = time.Now().Add(11 * time.Minute)
			}
			concPart(out, ec, scen, i, n, dl)
			lap("conc")
		}
		b, _ := json.Marshal(out)
		os.WriteFile(os.Getenv("VERIF_SHARD_OUT"), b, 0o644)
		return
	}
	rep := lib.NewReport("C06", "model_checking")
	// auxiliary race pass: the same kind of thread bodies free-running on the unrewritten tree under -race
	// (started first: it runs while the shards do the exhaustive parts)
	raceIters := "8"
	if tier == "thorough" {
		raceIters = "150"
	}
	raceCh := make(chan lib.RaceResult, 1)
	go func() {
		if o := os.Getenv("C06_ONLY"); o != "" && !strings.Contains(","+o+",", ",race,") {
			raceCh <- lib.RaceResult{Err: "skipped: C06_ONLY development run (parts " + o + " only)"}
			return
		}
		raceCh <- lib.RacePass("c06", "racebodies", "c06", raceIters)
	}()
	files, errs, outs := lib.RunShards(nShards, lib.Root+"/.build/c06/shards")
	sets := map[string]map[string]bool{}
	var allViol []lib.Violation
	for i, f := range files {
		if errs[i] != nil {
			fmt.Fprintf(os.Stderr, "shard %d failed: %v\n%s\n", i, errs[i], outs[i])
			os.Exit(2)
		}
		var so shardOut
		b, _ := os.ReadFile(f)
		if err := json.Unmarshal(b, &so); err != nil {
			fmt.Fprintf(os.Stderr, "shard %d: bad output: %v\n", i, err)
			os.Exit(2)
		}
		for k, v := range so.Counters {
			if k == "conc_max_interleavings_one_scenario" {
				if v > rep.Counter(k) {
					rep.Count(k, v-rep.Counter(k))
				}
				continue
			}
			rep.Count(k, v)
		}
		allViol = append(allViol, so.Violations...)
		for _, s := range so.Samples {
			rep.Sample(10, s)
		}
		for k, vs := range so.Sets {
			if sets[k] == nil {
				sets[k] = map[string]bool{}
			}
			for _, v := range vs {
				sets[k][v] = true
			}
		}
		if so.Incomplete != "" {
			rep.Incomplete = so.Incomplete
		}
	}
	// simplest (shortest description) first, so that the recorded example of each signature is a minimal one
	sort.SliceStable(allViol, func(i, j int) bool {
		a, b := allViol[i], allViol[j]
		if (a.Desc == "") != (b.Desc == "") {
			return a.Desc != ""
		}
		return len(a.Desc) < len(b.Desc)
	})
	for _, v := range allViol {
		rep.Violate(v.Sig, v.Desc, v.Replay)
	}
	nsp := 0
	for _, g := range gs {
		nsp += len(g.Spellings)
	}
	var es []string
	for s := range sets["expiry_states"] {
		es = append(es, s)
	}
	sort.Strings(es)
	rep.Coverage["host_groups"] = len(gs)
	rep.Coverage["host_spellings"] = nsp
	rep.Coverage["distinct_requested_names"] = len(sets["names"])
	rep.Coverage["expiry_model_states"] = es
	auditSteps := rep.Counter("reuse_steps") + rep.Counter("reuse_handshakes") + rep.Counter("setter_steps") + rep.Counter("signer_fault_steps") +
		rep.Counter("proxy_cases") + rep.Counter("proxy_handshakes") + rep.Counter("ca_requests") + rep.Counter("ca_handshakes")
	auditHist := rep.Counter("reuse_histories") + rep.Counter("setter_histories") + rep.Counter("signer_fault_histories") + rep.Counter("proxy_histories") + rep.Counter("ca_kinds")
	rep.Coverage["proxy_distinct_inputs"] = len(sets["proxy_inputs"])
	rep.Coverage["ca_kind_classes"] = len(sets["ca_kind_classes"])
	rep.Coverage["reuse_config_states"] = len(sets["reuse_states"])
	rep.Coverage["states"] = int64(len(sets["names"])+len(es)+len(sets["reuse_states"])+len(sets["proxy_inputs"])+len(sets["ca_kind_classes"])) + rep.Counter("conc_distinct_outcome_logs")
	rep.Coverage["transitions"] = rep.Counter("getcertificate_calls") + rep.Counter("handshakes") + rep.Counter("expiry_steps") + rep.Counter("conc_points") + auditSteps
	rep.Coverage["traces_validated_against_impl"] = rep.Counter("input_cases") + rep.Counter("expiry_histories") + rep.Counter("conc_executions") + auditHist
	rep.Coverage["evaluations"] = rep.Counter("input_cases") + rep.Counter("handshakes") + rep.Counter("expiry_steps") + rep.Counter("conc_executions") + auditSteps
	rep.Coverage["distinct_nontrivial"] = int64(len(sets["nontrivial"])) + rep.Counter("expiry_histories_with_invalid_cached_entry") + rep.Counter("conc_scenarios_with_schedule_dependent_outcome") +
		rep.Counter("reuse_histories_with_two_answers") + rep.Counter("setter_fresh_after_a_change") + rep.Counter("signer_fault_histories_with_a_failed_signature") +
		rep.Counter("proxy_cases_nontrivial") + rep.Counter("ca_kinds_intermediate")
	rep.Coverage["rule"] = "inputs: every (host spelling x SNI mode x entry point) of the pool, per CA environment, variant order rotated per environment so that every variant class meets a cold cache; " +
		"non-trivial = the expected answer is not 'issue for the plain lower-case DNS fallback host as given' (port or brackets to strip, IP SAN, upper-case letters, SNI overriding the fallback, or refusal under TLSForHost). " +
		"expiry: every (class, validity, issue shift of A, issue shift of B, request sequence) history; non-trivial = a cached entry is invalid (expired / not yet valid) when requested. " +
		"schedules: every interleaving of every scenario; non-trivial = scenarios whose observable outcome depends on the schedule. " +
		"reuse: every (config kind, hello sequence) with ONE tls.Config answering all hellos; non-trivial = the config had to give two different answers (two names, or a name and a refusal). " +
		"setters: every operation sequence over {SetOrganization x2, SetValidity x2, request new, request first again} ending in a request; non-trivial = a fresh certificate issued after a setter changed a value. " +
		"signer faults: every (request sequence, set of failing CA signatures); non-trivial = a signature actually failed. " +
		"proxy: every (CONNECT authority form x Host header x SNI mode x CONNECT modifier [x client version]) through a real martian.Proxy, and every ordered pair of tunnels over a reduced alphabet through one proxy; non-trivial = without SNI the proxy has another host name at hand than the authority the client named (rewritten URL host, differing Host header, the host of an earlier tunnel), or no host at all. " +
		"ca kinds: every (issuer x CA key x signature algorithm on the CA certificate) with a fixed request list; non-trivial = the configured CA is not self-signed."
	rep.Coverage["exhaustive"] = rep.Incomplete == ""
	rep.Coverage["bounds"] = fmt.Sprintf("inputs: label pool %d labels, 1..%d labels per name (<=253 chars), %d IPv4 + %d IPv6 literals, ports {none,:443,:8443}, IPv6 bare/[x]:port/[x], empty host, SNI {absent,equal,different}, entry {TLSForHost,TLS}, %d RSA-CA configs + 1 ECDSA-CA config, real handshake for every IP/empty group and every %d-th name; "+
		"expiry: %d histories = classes %v x (V,eps) x issue shifts {none,0,V-eps,V+eps,2V,-(V-eps),-(V+eps)}^2 x request sequences of length 1..%d over {A,A:port,B}; "+
		"schedules: %d scenarios (2-3 threads, 1-2 requests each over {A,A:port,B via SNI}, cache of A in {none,valid,expired}, of B in {none,expired}), all interleavings (no bound)",
		len(labelPool), maxLabels, len(ipv4Pool), len(ipv6Pool), nRSA, hsEvery, len(hs), hostClasses, map[string]int{"quick": 3, "thorough": 4}[tier], len(scen)) +
		fmt.Sprintf("; audit extensions: %d edge-spelling groups (empty/0/80/65535 ports, 253-char name, digit labels, trailing dot, port-like IPv6 groups) with TLS 1.3 and TLS 1.2 handshakes; "+
			"%d of the expiry histories request via SNI (TLS() / SNI over a fallback) or use validity 10m; "+
			"reuse: %d histories = %d config kinds %v x hello sequences of length 1..%d over %v, real handshakes on the reused config for every 8th; "+
			"setters: %d histories of length <=%d; signer faults: %d histories (sequences of length 1..%d over {A,B(ip),A:port} x all failure masks); "+
			"schedules: the scenario count includes two-thread scenarios (empty cache / expired A) for the host classes the original list never ran concurrently (quick: dns_mixed_case, ipv4, ipv6; thorough: dns_mixed_case, ipv4)",
			len(edgeGroups()), len(auditHistories(tier)), len(rh), len(reuseKinds), reuseKinds, map[string]int{"quick": 3, "thorough": 4}[tier], helloClasses,
			len(sh), map[string]int{"quick": 4, "thorough": 5}[tier], len(fh), map[string]int{"quick": 3, "thorough": 4}[tier]) +
		fmt.Sprintf("; round 6: proxy: %d histories = one tunnel: %d CONNECT authority forms (dns / mixed-case / IPv4 / [IPv6] with the tier's ports, with and without port, no host) x Host header %v x SNI {absent,equal,different} x %d CONNECT modifiers (martian url.Modifier: none, URL host -> dns:port / ipv4:port / [ipv6]:port / dns, scheme+path only) x client version (thorough: TLS 1.3 and 1.2); "+
			"two tunnels one after the other through the same proxy: every ordered pair over %d forms x SNI {absent,different}, per modifier (quick: none and URL host -> dns:port; thorough: all); one real proxy per history, one real handshake per tunnel; ECDSA CA (thorough also the RSA CA); "+
			"ca kinds: %d kinds = issuer {self, RSA root, ECDSA root(s), Ed25519 root} x CA key {RSA-2048, ECDSA P-256/P-384%s, Ed25519} x every signature algorithm of the issuer key (RSA PKCS#1 and PSS with SHA-256/384/512, ECDSA with SHA-256/384/512, Ed25519), %d requests each, TLS 1.3 + TLS 1.2 handshakes",
			len(pcs), len(proxyForms(tier)), hostHdrNames[:map[string]int{"quick": 2, "thorough": 3}[tier]], len(connectMods), len(pairForms), len(cks), map[string]string{"quick": "", "thorough": "/P-521"}[tier], len(caRequests(0)))
	rep.Assumptions = []string{
		"time is moved at issuance (clock origin shifted by -d, then requests at shift 0): translation invariance in time is assumed, because x509's re-verification inside mitm uses the real clock",
		"margins eps >= 20 s around the validity boundary; a history that takes longer than eps/2 of wall clock is discarded and reported as incomplete",
		"fresh cache state per history/execution is obtained with host names never used before on the same Config (a new Config costs an RSA key generation)",
		"scheduling points are the cache lock operations; unsynchronised accesses are not interleaved by the scheduler (the free-running -race pass samples them)",
		"SNI values carrying an IP literal, a port or brackets are counted as hosts a client may name via SNI (the statement's product); Go's own client cannot send them, so those hellos are judged at the GetCertificate callback only",
		"after SetOrganization a still valid cached certificate may keep the organization it was issued with (not judged); every fresh certificate must carry the organization and the +-validity window configured at its issuance",
		"a request during which the CA signer failed may be refused; any certificate handed out must still be a good one, and later requests must succeed",
		"only Go's crypto/tls client and x509 verifier; part 3 uses a harness-built ECDSA P-256 CA (cheap signatures), parts 1-2 the RSA CA of mitm.NewAuthority",
		"bracketed IPv6 without port ([::1]) is counted as a host spelling a client may name (URL host form); reported under its own signature",
		"proxy family: the host a client names is the SNI, else the request-target of its CONNECT; a differing Host header and whatever a request modifier writes into req.URL (the upstream target) do not change it. Modifiers that rewrite req.Host itself are not enumerated (the statement does not say whose name that is). One default schedule per case (the schedule dimension belongs to part 3)",
		"ca kinds: 'chains to the configured CA' is judged with the configured CA certificate as the only trust anchor, whether it is self-signed or an intermediate; name-constrained CAs are not enumerated",
	}
	rep.ReportRaces(<-raceCh)
	rep.Finish()
}

func replay(path string) {
	b, err := os.ReadFile(path)
	if err != nil {
		fmt.Println(err)
		os.Exit(2)
	}
	var rp struct {
		Sig   string
		First struct {
			Desc   string
			Replay map[string]interface{}
		}
	}
	json.Unmarshal(b, &rp)
	fmt.Printf("replay sig=%s\n  %s\n", rp.Sig, rp.First.Desc)
	r := rp.First.Replay
	if r["part"] != "inputs" {
		fmt.Printf("  (history/schedule replays are re-run by the full check; recorded case: %v)\n", r)
		return
	}
	e := newRSAEnv("Verif Org C06 #0, Ltd.")
	if r["ca"] == "ecdsa" {
		e = newECEnv("Verif EC Org")
	}
	host, _ := r["host"].(string)
	sni, _ := r["sni"].(string)
	want, _ := r["expect_name"].(string)
	tc := e.cfg.TLS()
	if r["entry"] == "TLSForHost" {
		tc = e.cfg.TLSForHost(host)
	}
	tlsc, err, pan := getCert(tc, sni)
	fmt.Printf("  %v(%q) sni=%q -> err=%v panic=%q\n", r["entry"], host, sni, err, pan)
	if err == nil && pan == "" {
		if want == "" {
			fmt.Println("  VIOLATION reproduced: a certificate was issued although no name is available")
			os.Exit(1)
		}
		sym, detail, _ := e.checkCert(tlsc, want, net.ParseIP(want) != nil, time.Now())
		fmt.Printf("  oracle: %q %s\n", sym, detail)
		if sym != "" {
			os.Exit(1)
		}
	}
}
