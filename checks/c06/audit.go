// Families added by the audit of C06 (see AUDIT.md). Same technique as main.go: explicit finite spaces enumerated
// exhaustively, the real mitm.Config executed on every element, a reference answer known by construction.
//
//	edgeGroups      (part 1) host spellings that sit on the edges of the port / bracket / IP parsing
//	auditHistories  (part 2) expiry histories whose requests arrive via SNI (TLS() or SNI over a fallback), and a
//	                non-default validity in the quick tier
//	reusePart       (part 4) ONE tls.Config answering a sequence of ClientHellos (absent / DNS / mixed-case / IP-literal /
//	                with-port / alias SNI): every answer is for that hello's own name, refusals stay refusals on a warm cache
//	settersPart     (part 5) SetOrganization / SetValidity interleaved with issuance: a fresh certificate follows the
//	                configuration current at its issuance
//	signerFaultPart (part 6) an opaque crypto.Signer CA key whose k-th signature fails: an error or a valid certificate,
//	                never a broken one, and full recovery afterwards
package main

import (
	"crypto"
	"crypto/ecdsa"
	"crypto/tls"
	"errors"
	"fmt"
	"io"
	"strings"
	"time"

	"verif/lib"
)

// ---------------------------------------------------------------------------------------------------
// part 1 extension: edge spellings
// ---------------------------------------------------------------------------------------------------

func edgeGroups() []group {
	var out []group
	dns := func(name, class string, ports ...string) {
		g := group{Name: name, Edge: true}
		for _, p := range ports {
			g.Spellings = append(g.Spellings, spelling{name + p, class})
		}
		out = append(out, g)
	}
	edgePorts := []string{":", ":0", ":80", ":65535"}
	// empty port (RFC 3986: port = *DIGIT) and the ends of the port range, on a lower-case and a mixed-case name
	dns("edge-port.example", "dns_port_edge", edgePorts...)
	dns("Edge-Port.EXAMPLE", "dns_port_edge", edgePorts...)
	// the longest name (253 characters, 63.63.63.61)
	long := strings.Repeat("a", 63) + "." + strings.Repeat("b", 63) + "." + strings.Repeat("c", 63) + "." + strings.Repeat("d", 61)
	dns(long, "dns_253", "", ":443", ":")
	// labels made of digits only, and dotted-decimal look-alikes that are NOT IPv4 literals
	for _, n := range []string{"123.example", "4.example", "1.2.3.4.5", "1.2.3", "256.1.1.1", "443"} {
		dns(n, "dns_digit_labels", "", ":443", ":8443")
	}
	// absolute form (trailing dot): the client's verifier is asked for the name exactly as the client named it
	dns("absolute.example.", "dns_trailing_dot", "", ":443")
	// IPv4 with edge ports
	g4 := group{Name: "198.51.100.7", IsIP: true, Edge: true}
	for _, p := range edgePorts {
		g4.Spellings = append(g4.Spellings, spelling{g4.Name + p, "ipv4_port_edge"})
	}
	out = append(out, g4)
	// IPv6 literals whose last group(s) read like a port number, bare and bracketed, with edge ports
	for _, ip := range []string{"2001:db8::443", "::443", "::8443", "2001:db8::80", "0:0:0:0:0:0:0:1", "::ffff:a00:1", "2001:db8::1:0"} {
		g := group{Name: ip, IsIP: true, Edge: true}
		g.Spellings = append(g.Spellings, spelling{ip, "ipv6_bare"}, spelling{"[" + ip + "]", "ipv6_bracket_noport"}, spelling{"[" + ip + "]:443", "ipv6_bracket_port"},
			spelling{"[" + ip + "]:", "ipv6_bracket_port_edge"}, spelling{"[" + ip + "]:65535", "ipv6_bracket_port_edge"}, spelling{"[" + ip + "]:0", "ipv6_bracket_port_edge"})
		out = append(out, g)
	}
	return out
}

// ---------------------------------------------------------------------------------------------------
// part 2 extension: expiry histories through the SNI entry points, non-default validity in quick
// ---------------------------------------------------------------------------------------------------

func auditHistories(tier string) []history {
	var out []history
	add := func(p vparam, classes []int, vias []int, maxLen int) {
		for _, via := range vias {
			for _, class := range classes {
				for pa := -1; pa < len(shiftKinds); pa++ {
					for pb := -1; pb < len(shiftKinds); pb++ {
						lib.Sequences(3, maxLen, func(seq []int) {
							if len(seq) == 0 {
								return
							}
							out = append(out, history{Class: class, Validity: p.V, Eps: p.Eps, PrimeA: pa, PrimeB: pb, Seq: append([]int(nil), seq...), Via: via})
						})
					}
				}
			}
		}
	}
	if tier == "thorough" {
		add(vparam{time.Hour, time.Minute}, []int{0, 1, 2, 3}, []int{1, 2}, 3)
		add(vparam{10 * time.Minute, time.Minute}, []int{0, 3}, []int{1, 2}, 2)
		return out
	}
	add(vparam{time.Hour, time.Minute}, []int{0, 3}, []int{1, 2}, 2)
	// quick otherwise only ever sets the default validity (1h): a value that is ignored would pass
	add(vparam{10 * time.Minute, time.Minute}, []int{0, 1, 2, 3}, []int{0}, 1)
	return out
}

// ---------------------------------------------------------------------------------------------------
// part 4: one tls.Config, many ClientHellos
// ---------------------------------------------------------------------------------------------------

var reuseKinds = []string{"tls", "tlsforhost_empty", "tlsforhost_port_only", "tlsforhost_dns", "tlsforhost_ipv4", "tlsforhost_ipv6_bracket_port", "tlsforhost_ipv6_bracket_noport"}

var helloClasses = []string{"absent", "sni_dns", "sni_dns_mixed_case", "sni_ip", "sni_dns_port", "sni_alias"}

type reuseHist struct {
	Kind int   // index into reuseKinds: which config is built once and then reused
	Seq  []int // index into helloClasses, one ClientHello each
}

func (h reuseHist) String() string {
	var s []string
	for _, v := range h.Seq {
		s = append(s, helloClasses[v])
	}
	return fmt.Sprintf("one %s config answers hellos [%s]", reuseKinds[h.Kind], strings.Join(s, ","))
}

func reuseHistories(tier string) []reuseHist {
	maxLen := 3
	if tier == "thorough" {
		maxLen = 4
	}
	var out []reuseHist
	for k := range reuseKinds {
		lib.Sequences(len(helloClasses), maxLen, func(seq []int) {
			if len(seq) > 0 {
				out = append(out, reuseHist{k, append([]int(nil), seq...)})
			}
		})
	}
	return out
}

// named is one way of saying a host together with the reference answer known by construction.
type named struct {
	Text string // what is put on the wire (SNI value or CONNECT authority)
	Name string // the host it names (port and brackets absent by construction); "" = none
	IP   bool
}

// reuseNames builds the fallback and the six hellos of history number u of a kind. All names are unique per u, so
// every history starts on a cold cache for its own names while the Config's cache is warm with everybody else's.
func reuseNames(kind, u int) (fallback named, hellos [6]named) {
	b0, b1, b2 := u>>16&255, u>>8&255, u&255
	v4 := fmt.Sprintf("12.%d.%d.%d", b0, b1, b2)
	v6 := fmt.Sprintf("2001:db8:7::%x:%x", u>>16&0xffff, u&0xffff)
	x := fmt.Sprintf("x%d.reuse.example", u)
	y := fmt.Sprintf("Y%d.ReUse.Example", u)
	switch kind {
	case 0, 1:
		fallback = named{"", "", false}
	case 2:
		fallback = named{":443", "", false}
	case 3:
		f := fmt.Sprintf("f%d.reuse.example", u)
		fallback = named{f + ":443", f, false}
	case 4:
		f := fmt.Sprintf("13.%d.%d.%d", b0, b1, b2)
		fallback = named{f + ":8443", f, true}
	case 5:
		f := fmt.Sprintf("2001:db8:8::%x:%x", u>>16&0xffff, u&0xffff)
		fallback = named{"[" + f + "]:443", f, true}
	default:
		f := fmt.Sprintf("2001:db8:8::%x:%x", u>>16&0xffff, u&0xffff)
		fallback = named{"[" + f + "]", f, true}
	}
	ipForms := []named{{v4, v4, true}, {v6, v6, true}, {"[" + v6 + "]:443", v6, true}, {v4 + ":8443", v4, true}, {"[" + v6 + "]", v6, true}}
	alias := named{strings.ToUpper(x), strings.ToUpper(x), false}
	if fallback.Name != "" {
		// the fallback host itself, said via SNI in another spelling (no port, no brackets, DNS in upper case)
		alias = named{strings.ToUpper(fallback.Name), strings.ToUpper(fallback.Name), fallback.IP}
		if fallback.IP {
			alias.Text, alias.Name = fallback.Name, fallback.Name
		}
	}
	hellos = [6]named{
		{"", fallback.Name, fallback.IP}, // absent: the fallback decides
		{x, x, false},
		{y, y, false},
		ipForms[(kind+u)%len(ipForms)],
		{x + ":8443", x, false},
		alias,
	}
	return
}

func reusePart(out *shardOut, e *env, hs []reuseHist, shard, nshards, hsEvery int) {
	states := map[string]bool{}
	u := 0
	for i, h := range hs {
		if nshards > 0 && i%nshards != shard {
			continue
		}
		u++
		fb, hellos := reuseNames(h.Kind, u)
		var tc *tls.Config
		if h.Kind == 0 {
			tc = e.cfg.TLS()
		} else {
			tc = e.cfg.TLSForHost(fb.Text)
		}
		out.Counters["reuse_histories"]++
		answers := map[string]bool{}
		var trail []string
		var earlier []named
		for si, sym := range h.Seq {
			hl := hellos[sym]
			sni := hl.Text
			scen := fmt.Sprintf("%s (fallback %q): hello #%d with SNI %q", h, fb.Text, si+1, sni)
			replay := map[string]interface{}{"part": "reuse", "history": h, "text": h.String(), "fallback": fb.Text, "step": si, "sni": sni, "expect_name": hl.Name}
			// signature class: what the fallback is matters only when the hello carries no SNI; with SNI only the entry point does
			entry := "tlsforhost"
			if h.Kind == 0 {
				entry = "tls"
			}
			scls := entry + ":" + helloClasses[sym]
			if sym == 0 {
				scls = reuseKinds[h.Kind] + ":absent"
			}
			pfx := "reuse:" + scls + ":"
			now := time.Now()
			tlsc, err, pan := getCert(tc, sni)
			out.Counters["reuse_steps"]++
			nviol := len(out.Violations)
			switch {
			case pan != "":
				out.violate(pfx+"panic", scen+": panic: "+pan, replay)
			case hl.Name == "":
				out.Counters["reuse_refusals_expected"]++
				if len(answers) > 0 {
					out.Counters["reuse_refusals_expected_after_an_issuance"]++
				}
				if err == nil {
					what := "a certificate"
					if tlsc != nil && tlsc.Leaf != nil {
						what = fmt.Sprintf("a certificate with CN %q, DNS SANs %q, IP SANs %v", tlsc.Leaf.Subject.CommonName, tlsc.Leaf.DNSNames, tlsc.Leaf.IPAddresses)
					}
					out.violate(pfx+"certificate_issued", scen+": neither SNI nor a fallback host is available, the handshake must be refused, but GetCertificate returned "+what, replay)
				}
			case err != nil:
				out.violate(pfx+"error", scen+": GetCertificate failed: "+err.Error(), replay)
			default:
				if sym, detail, _ := e.checkCert(tlsc, hl.Name, hl.IP, now); sym != "" {
					sig := pfx + sym
					if cs := certSig("", "", sym); strings.HasPrefix(cs, "cert:") {
						sig = cs
					}
					if sym == "name_mismatch" {
						// diagnosis: is it the (good) certificate of an earlier hello on this config? One signature per config kind then.
						for _, p := range earlier {
							if p.Name != "" && !strings.EqualFold(p.Name, hl.Name) {
								if s2, _, _ := e.checkCert(tlsc, p.Name, p.IP, now); s2 == "" {
									sig = "reuse:" + entry + ":certificate_of_earlier_hello"
									detail += fmt.Sprintf(" -- it is the certificate for %q, an earlier hello on the same config", p.Name)
									break
								}
							}
						}
					}
					out.violate(sig, scen+": "+detail, replay)
				}
			}
			earlier = append(earlier, hl)
			answers[strings.ToLower(hl.Name)] = true
			trail = append(trail, helloClasses[sym])
			states[reuseKinds[h.Kind]+"|"+strings.Join(trail, ",")] = true
			// real handshakes on the SAME server config for a deterministic subset; only for hellos Go's client can produce
			// (no SNI, or a DNS-name SNI)
			if (i/reuseStride(nshards))%hsEvery == 0 && len(out.Violations) == nviol && (sni == "" || !hl.IP && !strings.Contains(sni, ":")) {
				out.Counters["reuse_handshakes"]++
				res := handshake(e, tc, sni, hl.Name, hl.IP, 0)
				switch {
				case hl.Name == "" && res == "":
					out.violate("reuse_handshake:"+scls+":completed", scen+": TLS handshake completed although no name was available", replay)
				case hl.Name != "" && res != "":
					s := "failed"
					if strings.HasPrefix(res, "panic") {
						s = "panic"
					}
					out.violate("reuse_handshake:"+scls+":"+s, scen+": real TLS handshake on the reused config: "+res, replay)
				}
			}
		}
		// non-trivial: one config had to give at least two different answers (two names, or a name and a refusal)
		if len(answers) >= 2 {
			out.Counters["reuse_histories_with_two_answers"]++
		}
		if i%1201 == 7 {
			out.Samples = append(out.Samples, map[string]interface{}{"part": "reuse", "history": h.String()})
		}
	}
	for s := range states {
		out.add("reuse_states", s)
	}
}

// ---------------------------------------------------------------------------------------------------
// part 5: setters interleaved with issuance
// ---------------------------------------------------------------------------------------------------

var setterOrgs = []string{"Audit Org One, Inc.", "Ünï 組織 " + strings.Repeat("x", 70)}

var setterVals = []time.Duration{30 * time.Minute, 48 * time.Hour}

// operation alphabet: 0/1 SetOrganization(setterOrgs[i]), 2/3 SetValidity(setterVals[i]), 4 request a host never seen, 5 request the history's first host again
var setterOps = []string{"SetOrganization(#1)", "SetOrganization(#2)", "SetValidity(30m)", "SetValidity(48h)", "request(new host)", "request(first host again)"}

type setterHist struct{ Ops []int }

func (h setterHist) String() string {
	var s []string
	for _, o := range h.Ops {
		s = append(s, setterOps[o])
	}
	return strings.Join(s, "; ")
}

func setterHistories(tier string) []setterHist {
	maxLen := 4
	if tier == "thorough" {
		maxLen = 5
	}
	var out []setterHist
	lib.Sequences(len(setterOps), maxLen, func(seq []int) {
		n := 0
		for _, o := range seq {
			if o >= 4 {
				n++
			}
		}
		if n > 0 && seq[len(seq)-1] >= 4 { // a history ends with a request (a trailing setter is observed by nothing)
			out = append(out, setterHist{append([]int(nil), seq...)})
		}
	})
	return out
}

func settersPart(out *shardOut, e *env, hs []setterHist, shard, nshards int) {
	const defOrg, defVal = "Martian Proxy", time.Hour
	u := 0
	for i, h := range hs {
		if nshards > 0 && i%nshards != shard {
			continue
		}
		u++
		// every history starts from the documented defaults (there is no other way to return to them than the setters)
		e.cfg.SetOrganization(defOrg)
		e.cfg.SetValidity(defVal)
		e.org = defOrg
		val := defVal
		changed := false // some setter changed a value since the history began
		first := ""
		n := 0
		objs := map[*tls.Certificate]bool{}
		out.Counters["setter_histories"]++
		for si, op := range h.Ops {
			switch op {
			case 0, 1:
				e.cfg.SetOrganization(setterOrgs[op])
				changed = changed || e.org != setterOrgs[op]
				e.org = setterOrgs[op]
				continue
			case 2, 3:
				e.cfg.SetValidity(setterVals[op-2])
				changed = changed || val != setterVals[op-2]
				val = setterVals[op-2]
				continue
			}
			host := first
			if op == 4 || first == "" {
				n++
				host = fmt.Sprintf("s%d-%d.setters.example", u, n)
				if first == "" {
					first = host
				}
			}
			scen := fmt.Sprintf("[%s]: step %d request %q (configured now: organization %q, validity %s)", h, si+1, host, e.org, val)
			replay := map[string]interface{}{"part": "setters", "history": h, "text": h.String(), "step": si}
			t0 := time.Now()
			tlsc, err, pan := getCert(e.cfg.TLSForHost(host+":443"), "")
			t1 := time.Now()
			out.Counters["setter_steps"]++
			switch {
			case pan != "":
				out.violate("setters:panic", scen+": panic: "+pan, replay)
				continue
			case err != nil:
				out.violate("setters:error", scen+": "+err.Error(), replay)
				continue
			}
			if objs[tlsc] {
				// a certificate issued earlier in this history and still valid: reuse is fine; which organization a cached
				// certificate must carry after reconfiguration is not said by the statement -> only name/time/chain are judged
				out.Counters["setter_reused_not_judged_for_org"]++
				org := e.org
				if tlsc.Leaf != nil && len(tlsc.Leaf.Subject.Organization) == 1 {
					e.org = tlsc.Leaf.Subject.Organization[0]
				}
				if sym, detail, _ := e.checkCert(tlsc, host, false, t0); sym != "" {
					out.violate("setters:reused:"+sym, scen+": "+detail, replay)
				}
				e.org = org
				continue
			}
			objs[tlsc] = true
			out.Counters["setter_fresh_judged"]++
			if changed {
				out.Counters["setter_fresh_after_a_change"]++
			}
			sym, detail, leaf := e.checkCert(tlsc, host, false, t0)
			switch {
			case sym == "wrong_organization":
				out.violate("setters:organization_not_applied", scen+": fresh certificate: "+detail, replay)
			case sym != "":
				out.violate("setters:fresh:"+sym, scen+": "+detail, replay)
			default:
				// SetValidity: "the validity window around the current time": [t-V, t+V] for an issuance instant t in [t0, t1]
				// (DER times are whole seconds: 1 s of slack on each side)
				nbLo, nbHi := t0.Add(-val-time.Second), t1.Add(-val+time.Second)
				naLo, naHi := t0.Add(val-time.Second), t1.Add(val+time.Second)
				if leaf.NotBefore.Before(nbLo) || leaf.NotBefore.After(nbHi) || leaf.NotAfter.Before(naLo) || leaf.NotAfter.After(naHi) {
					out.violate("setters:validity_not_applied", fmt.Sprintf("%s: fresh certificate issued between %s and %s is valid from %s to %s, configured window is +-%s",
						scen, t0.UTC().Format(time.RFC3339), t1.UTC().Format(time.RFC3339), leaf.NotBefore.Format(time.RFC3339), leaf.NotAfter.Format(time.RFC3339), val), replay)
				}
			}
		}
		if i%2003 == 11 {
			out.Samples = append(out.Samples, map[string]interface{}{"part": "setters", "history": h.String()})
		}
	}
	e.cfg.SetOrganization(defOrg)
	e.cfg.SetValidity(defVal)
	e.org = defOrg
}

// ---------------------------------------------------------------------------------------------------
// part 6: CA key behind an opaque crypto.Signer whose k-th signature fails
// ---------------------------------------------------------------------------------------------------

type faultSigner struct {
	key   *ecdsa.PrivateKey
	calls int
	mask  uint // bit k set: the k-th Sign call (since reset) fails
	hit   int
}

func (f *faultSigner) Public() crypto.PublicKey { return f.key.Public() }

func (f *faultSigner) Sign(r io.Reader, digest []byte, opts crypto.SignerOpts) ([]byte, error) {
	k := f.calls
	f.calls++
	if f.mask>>uint(k)&1 == 1 {
		f.hit++
		return nil, errors.New("audit: signing device unavailable")
	}
	return f.key.Sign(r, digest, opts)
}

type faultHist struct {
	Seq  []int // 0 = A, 1 = B, 2 = A with port
	Mask uint
}

func (h faultHist) String() string {
	sym := []string{"A", "B", "A:port"}
	var s []string
	for _, v := range h.Seq {
		s = append(s, sym[v])
	}
	return fmt.Sprintf("requests %v, failing CA signatures (by index) mask %03b", s, h.Mask)
}

func faultHistories(tier string) []faultHist {
	maxLen := 3
	if tier == "thorough" {
		maxLen = 4
	}
	var out []faultHist
	lib.Sequences(3, maxLen, func(seq []int) {
		if len(seq) == 0 {
			return
		}
		// at most len(seq) signatures are requested: masks over that many bits (mask 0 = the opaque signer never fails)
		for m := uint(0); m < 1<<uint(len(seq)); m++ {
			out = append(out, faultHist{append([]int(nil), seq...), m})
		}
	})
	return out
}

func signerFaultPart(out *shardOut, ec *env, hs []faultHist, shard, nshards int) {
	key, ok := ec.capriv.(*ecdsa.PrivateKey)
	if !ok {
		fatal("signerFaultPart needs the ECDSA environment")
	}
	fs := &faultSigner{key: key}
	e := newEnv("ecdsa_opaque_signer", ec.ca, fs, "Verif Signer Org")
	u := 0
	for i, h := range hs {
		if nshards > 0 && i%nshards != shard {
			continue
		}
		u++
		a := fmt.Sprintf("a%d.signer.example", u)
		b := fmt.Sprintf("198.18.%d.%d", u>>8&255, u&255)
		req := []named{{a, a, false}, {b + ":443", b, true}, {a + ":8443", a, false}}
		fs.calls, fs.mask, fs.hit = 0, h.Mask, 0
		out.Counters["signer_fault_histories"]++
		for si, s := range h.Seq {
			r := req[s]
			before := fs.hit
			scen := fmt.Sprintf("%s: step %d request %q", h, si+1, r.Text)
			replay := map[string]interface{}{"part": "signer_fault", "history": h, "text": h.String(), "step": si}
			now := time.Now()
			tlsc, err, pan := getCert(e.cfg.TLSForHost(r.Text), "")
			out.Counters["signer_fault_steps"]++
			failed := fs.hit > before
			kind := "signer_ok"
			if failed {
				kind = "signer_failed"
			}
			switch {
			case pan != "":
				out.violate("signer_fault:"+kind+":panic", scen+": panic: "+pan, replay)
			case err != nil && !failed:
				out.violate("signer_fault:signer_ok:error", scen+": no signature failed during this request, yet it was refused: "+err.Error(), replay)
			case err != nil:
				out.Counters["signer_fault_refusals"]++
			default:
				// (also when the signature failed: handing out a certificate is then only acceptable if it is a good one)
				if sym, detail, _ := e.checkCert(tlsc, r.Name, r.IP, now); sym != "" {
					out.violate("signer_fault:"+kind+":"+sym, scen+": "+detail, replay)
				}
			}
		}
		if fs.hit > 0 {
			out.Counters["signer_fault_histories_with_a_failed_signature"]++
		}
		if i%97 == 5 {
			out.Samples = append(out.Samples, map[string]interface{}{"part": "signer_fault", "history": h.String()})
		}
	}
}

func reuseStride(nshards int) int {
	if nshards < 1 {
		return 1
	}
	return nshards
}
