// Round 7: the request-spelling family.
//
// "For every request the proxy reads" quantifies over requests, not over the one spelling the other scenarios
// use (absolute-form target + Host header + HTTP/1.1 outside a tunnel, origin-form + Host header inside one).
// A spelling is  <target form> x <Host header> x <protocol version>:
//
//	target form   abs     GET http://origin.test/x        origin  GET /x
//	Host header   host    Host: origin.test               empty   "Host:" (RFC 7230 5.4: target without authority)      none  (no Host field)
//	version       1.1     HTTP/1.1                        1.0ka   HTTP/1.0 + Connection: keep-alive                     1.0   HTTP/1.0 (the connection ends with the exchange)
//
// origin-form with an empty or absent Host header names no host at all ("hostless"). Outside a tunnel only a
// request modifier can make such a request routable (behaviour part "route": the request modifier sets URL.Host
// when it is empty, what a transparent deployment does); without it the round trip can only fail. Either way it is
// a request the proxy has read: both modifiers owe it their single call, with one context, and an answer goes back.
package main

import (
	"fmt"
	"strings"
)

const (
	originHost = "origin.test"
	routedHost = "routed.test"
)

var (
	spellForms    = []string{"abs", "origin"}
	spellHosts    = []string{"host", "empty", "none"}
	spellVersions = []string{"1.1", "1.0ka", "1.0"}
)

// spellOf returns the spelling of exchange k of a connection ("" = the usual one; only connection 0 is spelled).
func (s scenario) spellOf(conn string, k int) string {
	if conn != "0" || k < 0 || k >= len(s.Spell) {
		return ""
	}
	return s.Spell[k]
}

func spellParts(sp string) (form, host, ver string) {
	p := strings.Split(sp, ",")
	if len(p) != 3 {
		panic("bad spelling " + sp)
	}
	return p[0], p[1], p[2]
}

// hostless: neither the target nor a Host header names a host.
func hostless(sp string) bool {
	form, host, _ := spellParts(sp)
	return form == "origin" && host != "host"
}

// keepsAlive: the connection goes on after an exchange spelled like this.
func keepsAlive(sp string) bool {
	_, _, ver := spellParts(sp)
	return ver != "1.0"
}

// spellClass is the part of a signature that names the class of spelling.
func spellClass(sp string) string {
	form, _, ver := spellParts(sp)
	c := form + "-form-request"
	if hostless(sp) {
		c = "hostless-request"
	}
	if ver != "1.1" {
		c += ",http1.0"
	}
	return c
}

func renderSpelled(sp, conn string, k int) string {
	form, host, ver := spellParts(sp)
	target := "/x"
	if form == "abs" {
		target = "http://" + originHost + "/x"
	}
	proto := "HTTP/1.1"
	if ver != "1.1" {
		proto = "HTTP/1.0"
	}
	out := fmt.Sprintf("GET %s %s\r\n", target, proto)
	switch host {
	case "host":
		out += "Host: " + originHost + "\r\n"
	case "empty":
		out += "Host:\r\n"
	}
	if ver == "1.0ka" {
		out += "Connection: keep-alive\r\n"
	}
	return out + fmt.Sprintf("X-Conn: %s\r\nX-Seq: %d\r\n\r\n", conn, k)
}

func allSpellings() []string {
	var out []string
	for _, f := range spellForms {
		for _, h := range spellHosts {
			for _, v := range spellVersions {
				out = append(out, f+","+h+","+v)
			}
		}
	}
	return out
}

// spellScenarios: the whole product of spellings x modifier behaviours as single exchanges outside a tunnel; every
// keep-alive spelling followed by every spelling on the same connection (is the second request still read in frame
// and given its pair of calls); every spelling as the first request inside an intercepted tunnel.
func spellScenarios(tier string) []scenario {
	var out []scenario
	all := allSpellings()
	for _, sp := range all {
		for _, b := range []string{"pass", "route", "skip", "reqerr", "route+reserr", "hijack-req", "route+hijack-res"} {
			out = append(out, scenario{Mode: "plain", Beh: []string{b}, Spell: []string{sp}})
		}
	}
	for _, first := range all {
		if !keepsAlive(first) {
			continue
		}
		if tier != "thorough" && !hostless(first) {
			continue // quick: the spellings that name no host come first; thorough: all keep-alive spellings
		}
		for _, second := range all {
			out = append(out, scenario{Mode: "plain", Beh: []string{"route", "route"}, Spell: []string{first, second}})
			if tier == "thorough" {
				out = append(out, scenario{Mode: "plain", Beh: []string{"route", "route"}, Spell: []string{first, second}, Pipe: true},
					scenario{Mode: "plain", Beh: []string{"pass", "route+reserr"}, Spell: []string{first, second}})
			}
		}
	}
	inner := []string{"pass"}
	if tier == "thorough" {
		inner = []string{"pass", "route", "reqerr", "skip"}
	}
	for _, sp := range all {
		for _, b := range inner {
			out = append(out, scenario{Mode: "mitm-plain", Beh: []string{"pass", b}, Spell: []string{"", sp}})
		}
	}
	return out
}
