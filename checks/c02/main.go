// C02 — each exchange runs request then response modifiers exactly once with one context.
//
// The real proxy runs over simnet under the gosim scheduler with recording modifiers. Scenarios: proxy mode
// (plain, blind CONNECT, CONNECT+MITM with plaintext or TLS inside) x 1..3 exchanges per connection, each
// with a modifier behaviour (pass, request error, response error, skip round trip, round-trip error,
// hijack in the request or response modifier) x an optional second concurrent connection. Every schedule
// within the deviation bound is executed; the oracle is computed from the recorded calls.
package main

import (
	"bufio"
	"crypto/tls"
	"crypto/x509"
	"encoding/json"
	"errors"
	"fmt"
	"io"
	"net"
	"net/http"
	"net/url"
	"os"
	"strings"
	"time"

	martian "github.com/google/martian/v3"
	"github.com/google/martian/v3/mitm"
	"github.com/google/martian/v3/zzverif/simnet"
	"github.com/google/martian/v3/zzverif/vrt"
	"golang.org/x/net/http/httpguts"

	"verif/checks/pworld"
	"verif/lib"
)

type scenario struct {
	Mode   string   // plain | blind | mitm-plain | mitm-tls
	Beh    []string // behaviour per exchange on connection 0 (for CONNECT modes Beh[0] is the CONNECT exchange)
	Second bool     // a second connection runs one plain "pass" exchange concurrently
	Down   bool     // blind CONNECT only: the proxy is configured with a downstream proxy (the dialled peer answers the forwarded CONNECT itself)
	Pipe   bool     // the client writes all its requests before it reads the first response
}

func (s scenario) String() string {
	return fmt.Sprintf("mode=%s beh=%v second=%v pipelined=%v downstream=%v", s.Mode, s.Beh, s.Second, s.Pipe, s.Down)
}

type call struct {
	Kind    string // req | res
	Tick    int
	Req     *http.Request
	Ctx     *martian.Context
	CtxID   string
	Sess    *martian.Session
	SessID  string
	Conn    string
	Seq     string
	Method  string
	Scheme  string
	Warning string
	Stale   string // context marks (skip round trip, skip logging, API request) or values already set when the call started
}

type finding struct{ Sig, Desc string }

// behaviours may be combined with "+", e.g. "dialerr+hijack-res" (the dial fails and the response modifier
// hijacks on the resulting 502), "rterr+hijack-res", "skip+hijack-res".
func has(beh, part string) bool {
	for _, p := range strings.Split(beh, "+") {
		if p == part || p == "ml"+part {
			return true // "mlreqerr" / "mlreserr": the same behaviour with a multi-line error message
		}
	}
	return false
}

func errMsg(beh, part, msg string) error {
	for _, p := range strings.Split(beh, "+") {
		if p == "ml"+part {
			return errors.New(msg + ": first line\nsecond line \"quoted\" \\ end")
		}
	}
	return errors.New(msg)
}

func isHijack(beh string) bool { return has(beh, "hijack-req") || has(beh, "hijack-res") }

var (
	ca      *x509.Certificate
	mitmCfg *mitm.Config
)

func initMITM() {
	if mitmCfg != nil {
		return
	}
	c, priv, err := mitm.NewAuthority("verif", "verif", 24*time.Hour)
	if err != nil {
		panic(err)
	}
	ca = c
	mitmCfg, err = mitm.NewConfig(c, priv)
	if err != nil {
		panic(err)
	}
}

const marker = "HIJACKED-BY-MODIFIER\n"

func run(sc scenario) (body func(), check func(r *vrt.Result) []finding) {
	var w *pworld.World
	var calls []call
	var rtCalls []call
	var retained []*http.Request
	var staleCtx int
	var dials int
	type clientObs struct {
		conn      string
		statuses  []int
		warnings  []bool
		gotMarker bool
		eofAfter  bool
		extra     string
		err       string
		done      bool
		sentAfterHijack bool
	}
	var obs []*clientObs
	var hijackRetTick map[string]int
	var srvConn map[string]*simnet.Conn
	behOf := func(conn, seq string) string {
		if conn != "0" {
			return "pass"
		}
		var k int
		fmt.Sscanf(seq, "%d", &k)
		if k < len(sc.Beh) {
			return sc.Beh[k]
		}
		return "pass"
	}
	body = func() {
		calls, rtCalls, obs, retained = nil, nil, nil, nil
		dials = 0
		hijackRetTick = map[string]int{}
		srvConn = map[string]*simnet.Conn{}
		staleCtx = 0
		w = pworld.NewWorld()
		if strings.HasPrefix(sc.Mode, "mitm") {
			w.Proxy.SetMITM(mitmCfg)
		}
		rec := func(kind string, req *http.Request, hdr http.Header) call {
			c := call{Kind: kind, Tick: vrt.Tick(), Req: req, Conn: req.Header.Get("X-Conn"), Seq: req.Header.Get("X-Seq"), Method: req.Method, Scheme: req.URL.Scheme}
			c.Ctx = martian.NewContext(req)
			if c.Ctx != nil {
				c.CtxID = c.Ctx.ID()
				c.Sess = c.Ctx.Session()
				c.SessID = c.Sess.ID()
				if kind == "req" {
					// the context is per exchange: nothing an earlier exchange marked or stored may be on it
					var st []string
					if c.Ctx.SkippingRoundTrip() {
						st = append(st, "skip-round-trip")
					}
					if c.Ctx.SkippingLogging() {
						st = append(st, "skip-logging")
					}
					if c.Ctx.IsAPIRequest() {
						st = append(st, "api-request")
					}
					if _, ok := c.Ctx.Get("c02.mark"); ok {
						st = append(st, "value")
					}
					c.Stale = strings.Join(st, "+")
					c.Ctx.Set("c02.mark", c.Seq)
				}
			}
			return c
		}
		hijack := func(req *http.Request) {
			ctx := martian.NewContext(req)
			conn, brw, err := ctx.Session().Hijack()
			if err != nil {
				return
			}
			brw.WriteString(marker)
			brw.Flush()
			_ = conn
		}
		w.OnRequest = func(req *http.Request) error {
			c := rec("req", req, req.Header)
			calls = append(calls, c)
			retained = append(retained, req)
			b := behOf(c.Conn, c.Seq)
			if has(b, "preapi") {
				c.Ctx.APIRequest() // another modifier marked the exchange as addressed to the proxy's API first
			}
			if has(b, "skip") {
				c.Ctx.SkipRoundTrip()
			}
			if has(b, "api") {
				c.Ctx.APIRequest() // ... or a later modifier of the same chain does (context flags are independent)
			}
			if has(b, "skiplog") {
				c.Ctx.SkipLogging()
			}
			if has(b, "hijack-req") {
				hijack(req)
				hijackRetTick[c.Conn] = vrt.Tick()
			}
			if has(b, "reqerr") {
				return errMsg(b, "reqerr", "request modifier failed")
			}
			return nil
		}
		w.OnResponse = func(res *http.Response) error {
			c := rec("res", res.Request, res.Header)
			c.Warning = res.Header.Get("Warning")
			calls = append(calls, c)
			b := behOf(c.Conn, c.Seq)
			if has(b, "hijack-res") {
				hijack(res.Request)
				hijackRetTick[c.Conn] = vrt.Tick()
			}
			if has(b, "reserr") {
				return errMsg(b, "reserr", "response modifier failed")
			}
			return nil
		}
		w.Respond = func(req *http.Request) (*http.Response, error) {
			c := rec("rt", req, req.Header)
			c.Warning = req.Header.Get("Warning")
			rtCalls = append(rtCalls, c)
			// like http.Transport, refuse to send header fields that are not valid on the wire
			for name, vs := range req.Header {
				for _, v := range vs {
					if !httpguts.ValidHeaderFieldName(name) || !httpguts.ValidHeaderFieldValue(v) {
						return nil, fmt.Errorf("net/http: invalid header field value for %q", name)
					}
				}
			}
			if b := behOf(c.Conn, c.Seq); has(b, "rterr") {
				// the class of the error must not matter: an upstream that hangs up (io.EOF) or times out is
				// answered with a 502 like any other failure
				switch {
				case has(b, "eof"):
					return nil, io.EOF
				case has(b, "timeout"):
					return nil, &net.OpError{Op: "read", Net: "tcp", Err: os.ErrDeadlineExceeded}
				}
				return nil, errors.New("simulated round trip failure")
			}
			res := pworld.SimpleResponse(req, 200, "origin says hi to "+c.Conn+"/"+c.Seq)
			if has(behOf(c.Conn, c.Seq), "rtclone") {
				// a wrapping RoundTripper that works on a clone of the request (req.Clone / req.WithContext, the
				// documented way to add headers or tracing): its response names the clone
				res.Request = req.Clone(req.Context())
			}
			return res, nil
		}
		// blind tunnels dial a target that echoes one line
		w.Proxy.SetDial(func(network, addr string) (net.Conn, error) {
			dials++
			if has(behOf("0", "0"), "dialerr") {
				return nil, errors.New("simulated dial failure")
			}
			a, b := simnet.Pipe("proxy>target", "target")
			vrt.GoNamed("target", func() {
				br := bufio.NewReader(b)
				if sc.Down {
					// the downstream proxy: answer the forwarded CONNECT, then behave as the tunnel's target
					if req, err := http.ReadRequest(br); err != nil || req.Method != "CONNECT" {
						b.Close()
						return
					}
					b.Write([]byte("HTTP/1.1 200 OK\r\n\r\n"))
				}
				line, err := br.ReadString('\n')
				if err == nil {
					b.Write([]byte("echo:" + line))
				}
				io.Copy(io.Discard, br)
				b.Close()
			})
			return a, nil
		})
		if sc.Down {
			u, _ := url.Parse("http://downstream.test:3128")
			w.Proxy.SetDownstreamProxy(u)
		}
		w.Start()
		client := func(name string, mode string, beh []string) {
			o := &clientObs{conn: name}
			obs = append(obs, o)
			defer func() { o.done = true }()
			cl, err := w.Dial("c" + name)
			if err != nil {
				o.err = err.Error()
				return
			}
			srvConn[name] = cl.C.Peer()
			var rw io.ReadWriter = cl.C
			br := bufio.NewReader(cl.C)
			defer cl.C.Close()
			readMarkerOrEOF := func(br *bufio.Reader) {
				// after a hijack the client expects the marker, then (after trying another request) EOF
				line, err := br.ReadString('\n')
				if line == marker {
					o.gotMarker = true
				} else if line != "" {
					o.extra += line
				}
				if err != nil {
					o.eofAfter = err == io.EOF || pworld.IsReset(err)
					return
				}
				fmt.Fprintf(rw, "GET http://origin.test/after-hijack HTTP/1.1\r\nHost: origin.test\r\nX-Conn: %s\r\nX-Seq: 99\r\n\r\n", name)
				o.sentAfterHijack = true
				rest, err := io.ReadAll(br)
				o.extra += string(rest)
				o.eofAfter = err == nil || pworld.IsReset(err)
			}
			start := 0
			if mode != "plain" {
				fmt.Fprintf(cl.C, "CONNECT origin.test:443 HTTP/1.1\r\nHost: origin.test:443\r\nX-Conn: %s\r\nX-Seq: 0\r\n\r\n", name)
				b0 := beh[0]
				if isHijack(b0) {
					readMarkerOrEOF(br)
					return
				}
				res, err := http.ReadResponse(br, &http.Request{Method: "CONNECT"})
				if err != nil {
					o.err = "connect: " + err.Error()
					return
				}
				o.statuses = append(o.statuses, res.StatusCode)
				o.warnings = append(o.warnings, res.Header.Get("Warning") != "")
				if res.StatusCode != 200 {
					return
				}
				start = 1
				switch mode {
				case "blind":
					if has(b0, "skip") {
						// the modifier skipped the round trip: no tunnel exists behind the 200; the proxy closes
						rest, err := io.ReadAll(br)
						o.extra += string(rest)
						o.eofAfter = err == nil || pworld.IsReset(err)
						return
					}
					fmt.Fprintf(cl.C, "ping\n")
					line, _ := br.ReadString('\n')
					if line != "echo:ping\n" {
						o.err = fmt.Sprintf("tunnel echo: got %q", line)
					}
					return
				case "mitm-tls":
					roots := x509.NewCertPool()
					roots.AddCert(ca)
					tc := tls.Client(&bufConn{Conn: cl.C, r: br}, &tls.Config{ServerName: "origin.test", RootCAs: roots})
					if err := tc.Handshake(); err != nil {
						o.err = "tls: " + err.Error()
						return
					}
					rw = tc
					br = bufio.NewReader(tc)
				}
			}
			pipelined := sc.Pipe && name == "0"
			if pipelined {
				for k := start; k < len(beh); k++ {
					target := "http://origin.test/x"
					if mode == "mitm-tls" || mode == "mitm-plain" {
						target = "/x"
					}
					fmt.Fprintf(rw, "GET %s HTTP/1.1\r\nHost: origin.test\r\nX-Conn: %s\r\nX-Seq: %d\r\n\r\n", target, name, k)
				}
			}
			for k := start; k < len(beh); k++ {
				target := "http://origin.test/x"
				if mode == "mitm-tls" || mode == "mitm-plain" {
					target = "/x"
				}
				if !pipelined {
					fmt.Fprintf(rw, "GET %s HTTP/1.1\r\nHost: origin.test\r\nX-Conn: %s\r\nX-Seq: %d\r\n\r\n", target, name, k)
				}
				if isHijack(beh[k]) {
					readMarkerOrEOF(br)
					return
				}
				res, err := http.ReadResponse(br, &http.Request{Method: "GET"})
				if err != nil {
					o.err = fmt.Sprintf("exchange %d: %v", k, err)
					return
				}
				io.ReadAll(res.Body)
				o.statuses = append(o.statuses, res.StatusCode)
				o.warnings = append(o.warnings, res.Header.Get("Warning") != "")
			}
		}
		t0 := vrt.GoNamed("client0", func() { client("0", sc.Mode, sc.Beh) })
		var t1 *vrt.Thread
		if sc.Second {
			t1 = vrt.GoNamed("client1", func() { client("1", "plain", []string{"pass"}) })
		}
		vrt.WaitQuiescent()
		if !t0.Done() || (t1 != nil && !t1.Done()) {
			vrt.Sleep(11 * time.Minute)
			vrt.WaitQuiescent()
		}
		for _, rq := range retained {
			if martian.NewContext(rq) != nil {
				staleCtx++
			}
		}
		for _, c := range calls {
			vrt.Log("%s conn=%s seq=%s ctx=%v", c.Kind, c.Conn, c.Seq, c.Ctx != nil)
		}
		for _, o := range obs {
			vrt.Log("client %s: %v %v marker=%v eof=%v extra=%q err=%q done=%v", o.conn, o.statuses, o.warnings, o.gotMarker, o.eofAfter, o.extra, o.err, o.done)
		}
		vrt.Log("stale=%d", staleCtx)
	}
	check = func(r *vrt.Result) []finding {
		var out []finding
		add := func(sig, format string, a ...interface{}) { out = append(out, finding{sig, fmt.Sprintf(format, a...)}) }
		if r.Outcome != "ok" {
			add("outcome:"+r.Outcome, "execution ended with %s: %s", r.Outcome, firstLine(r.Panic))
			return out
		}
		tag := sc.Mode
		// index calls per exchange
		type key struct{ conn, seq string }
		reqs := map[key][]call{}
		ress := map[key][]call{}
		rts := map[key][]call{}
		for _, c := range calls {
			k := key{c.Conn, c.Seq}
			if c.Kind == "req" {
				reqs[k] = append(reqs[k], c)
			} else {
				ress[k] = append(ress[k], c)
			}
		}
		for _, c := range rtCalls {
			k := key{c.Conn, c.Seq}
			rts[k] = append(rts[k], c)
		}
		// expected exchanges on connection 0
		hijackedAt := -1
		nExpected := len(sc.Beh)
		for k, b := range sc.Beh {
			if isHijack(b) {
				hijackedAt = k
				nExpected = k + 1
				break
			}
			if k == 0 && sc.Mode != "plain" && has(b, "dialerr") {
				nExpected = 1
				break
			}
			if sc.Mode == "blind" {
				nExpected = 1
				break
			}
		}
		ids := map[string]key{}
		sessByConn := map[string]*martian.Session{}
		checkExchange := func(conn string, k int, beh string) {
			ky := key{conn, fmt.Sprint(k)}
			btag := tag + ":" + beh
			rq := reqs[ky]
			if len(rq) != 1 {
				add("reqmod_count:"+btag, "exchange %v: request modifier ran %d times (want 1)", ky, len(rq))
				return
			}
			c := rq[0]
			if c.Ctx == nil {
				add("no_context_in_reqmod:"+btag, "exchange %v: no context retrievable inside the request modifier", ky)
				return
			}
			if c.Stale != "" {
			add("context_not_fresh:"+tag+":"+c.Stale, "exchange %v: when the request modifier started the context already carried %s from an earlier exchange", ky, c.Stale)
		}
		if prev, dup := ids[c.CtxID]; dup {
				add("context_id_reused:"+btag, "exchanges %v and %v share context id %s", prev, ky, c.CtxID)
			}
			ids[c.CtxID] = ky
			if s, ok := sessByConn[conn]; ok && s != c.Sess {
				add("session_not_shared:"+btag, "exchange %v runs in a different session than earlier exchanges of its connection", ky)
			}
			sessByConn[conn] = c.Sess
			isConnect := conn == "0" && sc.Mode != "plain" && k == 0
			// upstream contact
			switch {
			case has(beh, "skip") || has(beh, "hijack-req"):
				if len(rts[ky]) != 0 {
					add("upstream_contact_unexpected:"+btag, "exchange %v: %d round trips although the modifier asked to %s", ky, len(rts[ky]), beh)
				}
				if isConnect && sc.Mode == "blind" && dials != 0 {
					add("upstream_contact_unexpected:"+btag, "exchange %v: the CONNECT target was dialled %d times although the modifier asked to %s", ky, dials, beh)
				}
			case isConnect:
			default:
				if len(rts[ky]) != 1 {
					add("roundtrip_count:"+btag, "exchange %v: %d round trips (want 1)", ky, len(rts[ky]))
				} else {
					if rts[ky][0].Tick < c.Tick {
						add("upstream_before_reqmod:"+btag, "exchange %v: origin contacted before the request modifier ran", ky)
					}
					if has(beh, "reqerr") && rts[ky][0].Warning == "" {
						add("reqerr_no_warning:"+btag, "exchange %v: request modifier error not surfaced as a Warning header on the forwarded request", ky)
					}
				}
			}
			rs := ress[ky]
			if has(beh, "hijack-req") {
				if len(rs) != 0 {
					add("resmod_after_hijack:"+btag, "exchange %v: response modifier ran %d times after the request modifier hijacked the connection", ky, len(rs))
				}
				return
			}
			if len(rs) != 1 {
				add("resmod_count:"+btag, "exchange %v: response modifier ran %d times (want 1)", ky, len(rs))
				return
			}
			if rs[0].Req != c.Req {
				add("resmod_other_request:"+btag, "exchange %v: the response's Request is not the request the request modifier saw", ky)
			}
			if rs[0].Ctx != c.Ctx {
				add("context_differs:"+btag, "exchange %v: request and response modifiers saw different contexts", ky)
			}
			if rs[0].Tick < c.Tick {
				add("resmod_before_reqmod:"+btag, "exchange %v: response modifier ran before the request modifier", ky)
			}
			if (has(beh, "rterr") || (isConnect && has(beh, "dialerr"))) && rs[0].Warning == "" {
				add("rterr_no_warning_in_resmod:"+btag, "exchange %v: the 502 seen by the response modifier has no Warning header", ky)
			}
		}
		for k := 0; k < nExpected; k++ {
			checkExchange("0", k, sc.Beh[k])
		}
		if sc.Second {
			checkExchange("1", 0, "pass")
			if sessByConn["0"] != nil && sessByConn["0"] == sessByConn["1"] {
				add("session_shared_across_connections:"+tag, "two connections share one session")
			}
		}
		// no modifier call for anything else (e.g. a request sent after a hijack)
		for ky, v := range reqs {
			var k int
			fmt.Sscanf(ky.seq, "%d", &k)
			if ky.conn == "0" && k >= nExpected {
				add("reqmod_on_unexpected_request:"+tag, "request modifier ran %d times for request %v (sent after the connection was hijacked / the tunnel was established)", len(v), ky)
			}
		}
		// client side
		for _, o := range obs {
			if !o.done {
				add("client_stuck:"+tag, "client %s did not finish even after the idle timeout", o.conn)
				continue
			}
			if o.conn == "1" {
				if o.err != "" || len(o.statuses) != 1 || o.statuses[0] != 200 {
					add("second_connection_failed:"+tag, "second connection: statuses=%v err=%s", o.statuses, o.err)
				}
				continue
			}
			if o.err != "" {
				add("client_error:"+tag, "client 0: %s", o.err)
			}
			idx := 0
			for k := 0; k < nExpected; k++ {
				b := sc.Beh[k]
				if isHijack(b) {
					break
				}
				if idx >= len(o.statuses) {
					add("missing_response:"+tag+":"+b, "client 0 received no response for exchange %d (%s)", k, b)
					break
				}
				want := 200
				if has(b, "rterr") || has(b, "dialerr") {
					want = 502
				}
				if o.statuses[idx] != want {
					add("wrong_status:"+tag+":"+b, "exchange %d (%s): client received status %d, want %d", k, b, o.statuses[idx], want)
				}
				wantWarn := has(b, "reserr") || has(b, "rterr") || has(b, "dialerr")
				if wantWarn && !o.warnings[idx] {
					add("no_warning_at_client:"+tag+":"+b, "exchange %d (%s): response reached the client without a Warning header", k, b)
				}
				idx++
			}
			if hijackedAt >= 0 {
				hb := sc.Beh[hijackedAt]
				if !o.gotMarker {
					add("hijack_marker_lost:"+tag+":"+hb, "the bytes written by the hijacker did not reach the client (extra=%q)", o.extra)
				}
				if o.extra != "" {
					add("bytes_after_hijack:"+tag+":"+hb, "client received %q on a hijacked connection (the proxy wrote to it)", o.extra)
				}
				if !o.eofAfter {
					add("hijacked_conn_not_closed:"+tag+":"+hb, "hijacked connection was not closed after the modifier returned")
				}
			}
		}
		// proxy-side socket activity after a hijack
		if hijackedAt >= 0 && srvConn["0"] != nil {
			if t, ok := hijackRetTick["0"]; ok {
				for _, op := range srvConn["0"].Ops {
					if op.Tick > t && (op.Kind == "read" || op.Kind == "write") {
						add("proxy_io_after_hijack:"+tag+":"+sc.Beh[hijackedAt]+":"+op.Kind, "proxy issued a %s on the connection after the hijacking modifier returned", op.Kind)
						break
					}
				}
				if !srvConn["0"].Closed() {
					add("hijacked_conn_left_open:"+tag+":"+sc.Beh[hijackedAt], "proxy never closed the hijacked connection")
				}
			}
		}
		if staleCtx != 0 {
			add("context_leak:"+tag, "%d requests of finished exchanges still resolve to a context (martian.NewContext)", staleCtx)
		}
		return out
	}
	return
}

// bufConn lets a TLS client read through the bufio.Reader that consumed the CONNECT response.
type bufConn struct {
	net.Conn
	r *bufio.Reader
}

func (b *bufConn) Read(p []byte) (int, error) { return b.r.Read(p) }

func firstLine(s string) string {
	if i := strings.IndexByte(s, '\n'); i >= 0 {
		return s[:i]
	}
	return s
}

func scenarios(tier string) []scenario {
	var out []scenario
	inner := []string{"pass", "reqerr", "reserr", "skip", "rterr", "hijack-req", "hijack-res", "rterr+hijack-res", "skip+hijack-res", "reqerr+hijack-res", "reqerr+reserr", "mlreqerr", "mlreserr", "mlreqerr+mlreserr", "rtclone", "skip+api+skiplog", "preapi+skip", "rterr+eof", "rterr+timeout"}
	core := map[string]bool{"pass": true, "reqerr": true, "reserr": true, "skip": true, "rterr": true, "hijack-req": true, "hijack-res": true, "rtclone": true}
	// plain: all behaviour sequences of length 1..2 (3 thorough)
	maxLen := 2
	if tier == "thorough" {
		maxLen = 3
	}
	lib.Sequences(len(inner), maxLen, func(seq []int) {
		if len(seq) == 0 {
			return
		}
		var beh []string
		for i, x := range seq {
			beh = append(beh, inner[x])
			if isHijack(inner[x]) && i != len(seq)-1 {
				return // nothing follows a hijack
			}
		}
		if len(seq) >= 3 {
			// sequences of three exchanges over the eight basic behaviours only (the combinations and spelling
			// variants run in the sequences of one and two)
			for _, b := range beh {
				if !core[b] {
					return
				}
			}
		}
		out = append(out, scenario{Mode: "plain", Beh: beh})
		hj := false
		for _, b := range beh {
			hj = hj || isHijack(b)
		}
		if len(seq) >= 2 && !hj {
			out = append(out, scenario{Mode: "plain", Beh: beh, Pipe: true})
		}
		if len(seq) <= 2 {
			out = append(out, scenario{Mode: "plain", Beh: beh, Second: true})
		}
	})
	for _, b0 := range []string{"pass", "reqerr", "reserr", "dialerr", "hijack-req", "hijack-res", "dialerr+hijack-res", "dialerr+reserr", "reqerr+hijack-res", "skip", "skip+reserr", "skip+hijack-res", "preapi+skip"} {
		out = append(out, scenario{Mode: "blind", Beh: []string{b0}}, scenario{Mode: "blind", Beh: []string{b0}, Second: true})
		if !has(b0, "dialerr") {
			out = append(out, scenario{Mode: "blind", Beh: []string{b0}, Down: true})
		}
	}
	for _, mode := range []string{"mitm-plain", "mitm-tls"} {
		for _, b0 := range []string{"pass", "reqerr", "reserr", "hijack-req", "hijack-res", "reqerr+hijack-res"} {
			if isHijack(b0) {
				out = append(out, scenario{Mode: mode, Beh: []string{b0}})
				continue
			}
			for _, b1 := range inner {
				out = append(out, scenario{Mode: mode, Beh: []string{b0, b1}})
				if b0 == "pass" && !isHijack(b1) {
					for _, b2 := range []string{"pass", "hijack-req", "hijack-res"} {
						out = append(out, scenario{Mode: mode, Beh: []string{b0, b1, b2}})
					}
				}
			}
		}
		out = append(out, scenario{Mode: mode, Beh: []string{"pass", "pass"}, Second: true})
		out = append(out, scenario{Mode: mode, Beh: []string{"pass", "pass", "reserr"}, Pipe: true}, scenario{Mode: mode, Beh: []string{"pass", "skip", "rterr"}, Pipe: true})
	}
	return out
}

type shardOut struct {
	Counters   map[string]int64
	Violations []lib.Violation
	Samples    []interface{}
	Incomplete string
	MinBound   int
}

func main() {
	tier := lib.Tier()
	initMITM()
	scen := scenarios(tier)
	if rp := os.Getenv("VERIF_REPLAY"); rp != "" {
		var doc struct {
			First struct {
				Replay struct {
					Scenario scenario
					Schedule []int
				}
			}
		}
		b, err := os.ReadFile(rp)
		if err != nil || json.Unmarshal(b, &doc) != nil {
			fmt.Fprintln(os.Stderr, "cannot read replay", rp, err)
			os.Exit(2)
		}
		body, check := run(doc.First.Replay.Scenario)
		r := vrt.Run(vrt.Config{Trace: true, MaxPoints: 100000}, doc.First.Replay.Schedule, body)
		for _, l := range r.Trace {
			fmt.Println("  ", l)
		}
		fmt.Println("outcome:", r.Outcome, r.Panic)
		for _, l := range r.Log {
			fmt.Println("log:", l)
		}
		fs := check(r)
		for _, f := range fs {
			fmt.Printf("VIOLATION property=C02 replay=%s\n  %s: %s\n", rp, f.Sig, f.Desc)
		}
		if len(fs) > 0 {
			os.Exit(1)
		}
		return
	}
	if i, n := lib.ShardEnv(); n > 0 {
		out := &shardOut{Counters: map[string]int64{}, MinBound: 99}
		per := 30 * time.Second
		if tier == "thorough" {
			per = 90 * time.Second
		}
		for si, sc := range scen {
			if si%n != i {
				continue
			}
			b := 1
			if tier == "thorough" {
				b = 3
				if len(sc.Beh) >= 3 {
					b = 1 // the length-3 sequences are many (17^3 and their pipelined variants): deviation bound 1
				}
			}
			if sc.Mode == "mitm-tls" {
				b--
			}
			body, check := run(sc)
			seen := map[string]bool{}
			st := vrt.Explore(vrt.ExploreConfig{Bound: b, Deadline: time.Now().Add(per), Config: vrt.Config{MaxPoints: 100000}}, body, func(prefix []int, r *vrt.Result) bool {
				for _, f := range check(r) {
					if !seen[f.Sig] {
						seen[f.Sig] = true
						if err := vrt.Confirm(vrt.Config{MaxPoints: 100000, MaxVTime: 3 * time.Hour}, r, body, 3); err != nil {
							fmt.Fprintln(os.Stderr, "ENGINE ERROR:", err)
							os.Exit(2)
						}
						out.Violations = append(out.Violations, lib.Violation{Sig: f.Sig, Desc: fmt.Sprintf("scenario {%s} schedule %v: %s", sc, r.ChoiceSeq(), f.Desc),
							Replay: map[string]interface{}{"scenario": sc, "schedule": r.ChoiceSeq(), "log": r.Log}})
					}
				}
				return true
			})
			if st.EngineError != "" {
				fmt.Fprintln(os.Stderr, "ENGINE ERROR:", st.EngineError)
				os.Exit(2)
			}
			out.Counters["scenarios"]++
			out.Counters["executions"] += int64(st.Execs)
			out.Counters["points"] += st.Points
			out.Counters["distinct_outcomes"] += int64(st.DistinctLogs)
			out.Counters["horizon_hits"] += int64(st.HorizonHits)
			if st.DistinctLogs > 1 {
				out.Counters["scenarios_with_multiple_outcomes"]++
			}
			if !st.Exhaustive {
				out.Incomplete = fmt.Sprintf("scenario {%s}: cap hit, bound completed %d", sc, st.BoundCompleted)
			}
			if st.BoundCompleted < out.MinBound {
				out.MinBound = st.BoundCompleted
			}
			if len(out.Samples) < 2 {
				out.Samples = append(out.Samples, map[string]interface{}{"scenario": sc.String(), "executions": st.Execs, "distinct_outcomes": st.DistinctLogs, "bound": b})
			}
		}
		b, _ := json.Marshal(out)
		os.WriteFile(os.Getenv("VERIF_SHARD_OUT"), b, 0o644)
		return
	}
	rep := lib.NewReport("C02", "model_checking")
	files, errs, outs := lib.RunShards(16, lib.Root+"/.build/c02/shards")
	minBound := 99
	for i, f := range files {
		if errs[i] != nil {
			fmt.Fprintf(os.Stderr, "shard %d failed: %v\n%s\n", i, errs[i], outs[i])
			os.Exit(2)
		}
		var so shardOut
		b, _ := os.ReadFile(f)
		if err := json.Unmarshal(b, &so); err != nil {
			fmt.Fprintf(os.Stderr, "shard %d: bad output: %v\n", i, err)
			os.Exit(2)
		}
		for k, v := range so.Counters {
			rep.Count(k, v)
		}
		for _, v := range so.Violations {
			rep.Violate(v.Sig, v.Desc, v.Replay)
		}
		for _, s := range so.Samples {
			rep.Sample(8, s)
		}
		if so.Incomplete != "" {
			rep.Incomplete = so.Incomplete
		}
		if so.MinBound < minBound {
			minBound = so.MinBound
		}
	}
	rep.Coverage["states"] = rep.Counter("distinct_outcomes")
	rep.Coverage["transitions"] = rep.Counter("points")
	rep.Coverage["traces_validated_against_impl"] = rep.Counter("executions")
	rep.Coverage["bound_completed"] = minBound
	rep.Coverage["exhaustive"] = rep.Incomplete == ""
	rep.Coverage["bounds"] = fmt.Sprintf("%d scenarios: plain mode with all behaviour sequences (17 behaviours incl. combinations: errors with one- and multi-line messages, skip round trip combined with the other context marks in both orders, a RoundTripper answering on a clone of the request) up to length %d, blind CONNECT x 6 behaviours, MITM with plaintext / TLS inside x CONNECT behaviours x inner behaviours, optional second concurrent connection; every schedule with <= %d deviations (one less for TLS scenarios; sequences of three exchanges: <= 1)", len(scen), map[string]int{"quick": 2, "thorough": 3}[tier], map[string]int{"quick": 1, "thorough": 3}[tier])
	rep.Coverage["explanation"] = "each execution runs the real proxy.go/context.go over simnet under the gosim scheduler with recording modifiers; the clause that no context remains retrievable is judged through the public API (martian.NewContext on every request the modifiers saw)"
	rep.Assumptions = []string{"round trips go through a synchronous harness RoundTripper (which validates header fields like http.Transport)", "TLS inside the tunnel uses crypto/tls unmodified on simnet connections", "unsynchronised accesses (context/session id generation, context table) are covered by the auxiliary free-running -race pass (sampling)"}
	raceIters := "30"
	if tier == "thorough" {
		raceIters = "300"
	}
	rep.ReportRaces(lib.RacePass("c02", "racebodies", "c02", raceIters))
	rep.Finish()
}
