// C02 — each exchange runs request then response modifiers exactly once with one context.
//
// The real proxy runs over simnet under the gosim scheduler with recording modifiers. Scenarios: proxy mode
// (plain, blind CONNECT, CONNECT+MITM with plaintext or TLS inside) x 1..3 exchanges per connection, each
// with a modifier behaviour (pass, request error, response error, skip round trip, round-trip error,
// hijack in the request or response modifier) x an optional second concurrent connection. Every schedule
// within the deviation bound is executed; the oracle is computed from the recorded calls.
//
// Added by the coverage audit (AUDIT.md): modifiers that change the messages (every behaviour but "pass"),
// requests with a body, two errors on one response, clients that leave before the answer, a downstream proxy
// that hangs up, a request already buffered behind the hijacked one, second connections with behaviours of
// their own, a later connection after all others have ended; oracle clauses for contexts that outlive their
// exchange while the connection lives on, session ids and stored values, Warning texts, the upstream order
// of a blind CONNECT and what a downstream proxy is sent.
//
// Round 7 (spell.go): how the client spells a request - target form x Host header x protocol version, including
// requests that name no host and that only a request modifier ("route") makes routable.
//
// Round 8 (draws.go): the proxy's random source (crypto/rand.Reader) is scripted by the scenario - pairwise different
// draws that differ in a single byte, at every position - and all context ids and session ids must still differ.
//
// Round 8b: Proxy.Close() is called while an exchange is in flight ("closing": the request modifier of the last
// exchange of the connection starts Close() on a thread of its own and returns once Proxy.Closing() reports true);
// the exchange is owed everything the statement promises any other exchange.
package main

import (
	"bufio"
	"crypto/tls"
	"crypto/x509"
	"encoding/json"
	"errors"
	"fmt"
	"io"
	"net"
	"net/http"
	"net/url"
	"os"
	"sort"
	"strings"
	"time"

	martian "github.com/google/martian/v3"
	"github.com/google/martian/v3/mitm"
	"github.com/google/martian/v3/zzverif/simnet"
	"github.com/google/martian/v3/zzverif/vrt"
	"golang.org/x/net/http/httpguts"

	"verif/checks/pworld"
	"verif/lib"
)

type scenario struct {
	Mode   string   // plain | blind | mitm-plain | mitm-tls
	Beh    []string // behaviour per exchange on connection 0 (for CONNECT modes Beh[0] is the CONNECT exchange)
	Second bool     // a second connection runs one plain "pass" exchange concurrently
	Down   bool     // blind CONNECT only: the proxy is configured with a downstream proxy (the dialled peer answers the forwarded CONNECT itself)
	Pipe   bool     // the client writes all its requests before it reads the first response (when the last behaviour hijacks, one more request follows it in the same write)
	Mode2  string   `json:",omitempty"` // mode of the second connection (default plain; plain | mitm-plain | mitm-tls)
	Beh2   []string `json:",omitempty"` // behaviours of the second connection (default: one "pass" exchange)
	After  bool     `json:",omitempty"` // once everything has quiesced (all earlier connections closed) a further connection runs one plain exchange
	Spell  []string `json:",omitempty"` // round 7: how the client spells each request of connection 0 ("<target form>,<Host header>,<version>", see spell.go; "" = the usual spelling)
	Draws  string   `json:",omitempty"` // round 8: what the proxy's random source (crypto/rand.Reader) returns during the execution: pairwise different 8-byte draws that differ in one byte only ("byte=<p>,step=<lo|hi>,base=<hex>", see draws.go; "" = the operating system's source)
	Lean   bool     `json:",omitempty"` // the harness modifiers do not probe the session's value store and the requests of earlier exchanges (each probe is a lock operation in martian, i.e. a scheduling point); set for the scenarios explored at deviation bound 3
}

func (s scenario) String() string {
	out := fmt.Sprintf("mode=%s beh=%v second=%v pipelined=%v downstream=%v", s.Mode, s.Beh, s.Second, s.Pipe, s.Down)
	if s.Mode2 != "" || s.Beh2 != nil {
		out += fmt.Sprintf(" mode2=%s beh2=%v", s.mode2(), s.beh2())
	}
	if s.After {
		out += " later-connection=true"
	}
	if s.Lean {
		out += " lean=true"
	}
	if s.Spell != nil {
		out += fmt.Sprintf(" spelling=%q", s.Spell)
	}
	if s.Draws != "" {
		out += fmt.Sprintf(" random-draws={%s}", s.Draws)
	}
	return out
}

// closes: round 8b - the request modifier of the last exchange of connection 0 calls Proxy.Close() (on another thread).
func (s scenario) closes() bool {
	return len(s.Beh) > 0 && has(s.Beh[len(s.Beh)-1], "closing")
}

func (s scenario) mode2() string {
	if s.Mode2 == "" {
		return "plain"
	}
	return s.Mode2
}

func (s scenario) beh2() []string {
	if s.Beh2 == nil {
		return []string{"pass"}
	}
	return s.Beh2
}

// spec returns mode and behaviours of a connection: "0" the first, "1" the concurrent second, "2" the later one.
func (s scenario) spec(conn string) (string, []string) {
	switch conn {
	case "0":
		return s.Mode, s.Beh
	case "1":
		return s.mode2(), s.beh2()
	}
	return "plain", []string{"pass"}
}

// mutates: every behaviour except the literal "pass" also changes the messages: the request modifier sets
// X-Req-Mut and the response modifier X-Res-Mut to "<conn>/<seq>" (the "mutate" value of the statement's
// quantifier; "mut" is the behaviour that does only this).
func mutates(beh string) bool { return beh != "pass" && beh != "closing" }

// expect returns how many exchanges of a connection the modifiers must see and which of them hijacks (-1: none).
func expect(mode string, beh []string) (nExpected, hijackedAt int) {
	hijackedAt = -1
	nExpected = len(beh)
	for k, b := range beh {
		if isHijack(b) {
			return k + 1, k
		}
		if k == 0 && mode != "plain" && (has(b, "dialerr") || has(b, "downerr") || has(b, "downref") || has(b, "gone")) {
			return 1, -1
		}
		if mode == "blind" {
			return 1, -1
		}
	}
	return
}

const postBody = "hello"

type call struct {
	Kind    string // req | res
	Tick    int
	Req     *http.Request
	Ctx     *martian.Context
	CtxID   string
	Sess    *martian.Session
	SessID  string
	Conn    string
	Seq     string
	Method  string
	Scheme  string
	Warning string
	Stale   string // context marks (skip round trip, skip logging, API request) or values already set when the call started
	ReqMut  string // X-Req-Mut as seen by the round tripper
	Body    string // request body as read by the round tripper
	Linger  string // earlier exchanges of the same connection whose request still resolved to a context when this request modifier started
	SessVal string // "foreign:<conn>" / "lost": what the session's value store showed when this request modifier started
	Host    string // the host the request names when the call starts (URL.Host, else the Host field)
}

type finding struct{ Sig, Desc string }

// behaviours may be combined with "+", e.g. "dialerr+hijack-res" (the dial fails and the response modifier
// hijacks on the resulting 502), "rterr+hijack-res", "skip+hijack-res".
func has(beh, part string) bool {
	for _, p := range strings.Split(beh, "+") {
		if p == part || p == "ml"+part {
			return true // "mlreqerr" / "mlreserr": the same behaviour with a multi-line error message
		}
	}
	return false
}

func errMsg(beh, part, msg string) error {
	for _, p := range strings.Split(beh, "+") {
		if p == "ml"+part {
			return errors.New(msg + ": first line\nsecond line \"quoted\" \\ end")
		}
	}
	return errors.New(msg)
}

func isHijack(beh string) bool { return has(beh, "hijack-req") || has(beh, "hijack-res") }

var (
	ca      *x509.Certificate
	mitmCfg *mitm.Config
)

func initMITM() {
	if mitmCfg != nil {
		return
	}
	c, priv, err := mitm.NewAuthority("verif", "verif", 24*time.Hour)
	if err != nil {
		panic(err)
	}
	ca = c
	mitmCfg, err = mitm.NewConfig(c, priv)
	if err != nil {
		panic(err)
	}
}

const marker = "HIJACKED-BY-MODIFIER\n"

func run(sc scenario) (body func(), check func(r *vrt.Result) []finding) {
	var w *pworld.World
	var calls []call
	var rtCalls []call
	var retained []*http.Request
	type kept struct {
		conn string
		seq  int
		req  *http.Request
	}
	var keptReqs []kept
	type downObs struct{ Warning, ReqMut string }
	var downSeen []downObs
	var staleCtx int
	var dials int
	var dialTicks []int
	type clientObs struct {
		conn               string
		statuses           []int
		warnings           []bool
		warnText           []string // all Warning values of each response
		resMut             []string // X-Res-Mut of each response
		gotMarker          bool
		eofAfter           bool
		extra              string
		err                string
		done               bool
		sentAfterHijack    bool
		left               bool // the client closed behind its last request without reading the answer
		closedAfterConnect bool // the proxy closed the connection right after its 200 to the CONNECT (nothing inside the tunnel was answered)
	}
	var obs []*clientObs
	var hijackRetTick map[string]int
	var srvConn map[string]*simnet.Conn
	var rnd *scriptedRand
	// round 8b: Proxy.Close() called while an exchange is in flight
	var closeT *vrt.Thread // the thread that calls Proxy.Close()
	var closeRet bool      // Close() returned
	var closeSeen bool     // the request modifier saw Proxy.Closing() == true before it returned
	behOf := func(conn, seq string) string {
		_, beh := sc.spec(conn)
		var k int
		fmt.Sscanf(seq, "%d", &k)
		if k < len(beh) {
			return beh[k]
		}
		return "pass"
	}
	body = func() {
		calls, rtCalls, obs, retained = nil, nil, nil, nil
		keptReqs, downSeen, dialTicks = nil, nil, nil
		dials = 0
		hijackRetTick = map[string]int{}
		srvConn = map[string]*simnet.Conn{}
		staleCtx = 0
		closeT, closeRet, closeSeen = nil, false, false
		// the random source belongs to the scenario (round 8): a scripted one for this execution, else the
		// operating system's; put back when the execution ends
		rnd = nil
		if sc.Draws != "" {
			rnd = &scriptedRand{script: sc.Draws}
		}
		installRand(rnd)
		defer installRand(nil)
		w = pworld.NewWorld()
		if strings.HasPrefix(sc.Mode, "mitm") {
			w.Proxy.SetMITM(mitmCfg)
		}
		rec := func(kind string, req *http.Request, hdr http.Header) call {
			c := call{Kind: kind, Tick: vrt.Tick(), Req: req, Conn: req.Header.Get("X-Conn"), Seq: req.Header.Get("X-Seq"), Method: req.Method, Scheme: req.URL.Scheme}
			if c.Host = req.URL.Host; c.Host == "" {
				c.Host = req.Host
			}
			c.Ctx = martian.NewContext(req)
			if c.Ctx != nil {
				c.CtxID = c.Ctx.ID()
				c.Sess = c.Ctx.Session()
				c.SessID = c.Sess.ID()
				if kind == "req" {
					// the context is per exchange: nothing an earlier exchange marked or stored may be on it
					var st []string
					if c.Ctx.SkippingRoundTrip() {
						st = append(st, "skip-round-trip")
					}
					if c.Ctx.SkippingLogging() {
						st = append(st, "skip-logging")
					}
					if c.Ctx.IsAPIRequest() {
						st = append(st, "api-request")
					}
					if _, ok := c.Ctx.Get("c02.mark"); ok {
						st = append(st, "value")
					}
					c.Stale = strings.Join(st, "+")
					c.Ctx.Set("c02.mark", c.Seq)
					// the session's value store belongs to this connection alone and lasts as long as it does
					earlier := false
					for _, k := range keptReqs {
						earlier = earlier || k.conn == c.Conn
					}
					if !sc.Lean {
						if v, ok := c.Sess.Get("c02.conn"); ok {
							if v != c.Conn {
								c.SessVal = fmt.Sprintf("foreign:%v", v)
							}
						} else if earlier {
							c.SessVal = "lost"
						}
						c.Sess.Set("c02.conn", c.Conn)
					}
				}
			}
			if kind == "req" {
				// once an exchange has ended its request resolves to no context any more - also while the
				// connection lives on. (The CONNECT exchange of an intercepted tunnel is still on the stack
				// while the first request inside the tunnel is served: its handler returns afterwards.)
				var seq int
				fmt.Sscanf(c.Seq, "%d", &seq)
				mode, _ := sc.spec(c.Conn)
				var lg []string
				for _, k := range keptReqs {
					if k.conn != c.Conn || k.seq >= seq || k.req == req {
						continue
					}
					if mode != "plain" && k.seq == 0 && seq == 1 {
						continue
					}
					if !sc.Lean && martian.NewContext(k.req) != nil {
						lg = append(lg, fmt.Sprint(k.seq))
					}
				}
				c.Linger = strings.Join(lg, ",")
				keptReqs = append(keptReqs, kept{c.Conn, seq, req})
			}
			return c
		}
		hijack := func(req *http.Request) {
			ctx := martian.NewContext(req)
			conn, brw, err := ctx.Session().Hijack()
			if err != nil {
				return
			}
			brw.WriteString(marker)
			brw.Flush()
			_ = conn
		}
		w.OnRequest = func(req *http.Request) error {
			c := rec("req", req, req.Header)
			calls = append(calls, c)
			retained = append(retained, req)
			b := behOf(c.Conn, c.Seq)
			if mutates(b) {
				req.Header.Set("X-Req-Mut", c.Conn+"/"+c.Seq)
			}
			if has(b, "route") && req.URL.Host == "" {
				// transparent routing: a request that names no host is sent where the modifier decides
				req.URL.Host = routedHost
			}
			if has(b, "preapi") {
				c.Ctx.APIRequest() // another modifier marked the exchange as addressed to the proxy's API first
			}
			if has(b, "skip") {
				c.Ctx.SkipRoundTrip()
			}
			if has(b, "api") {
				c.Ctx.APIRequest() // ... or a later modifier of the same chain does (context flags are independent)
			}
			if has(b, "skiplog") {
				c.Ctx.SkipLogging()
			}
			if has(b, "hijack-req") {
				hijack(req)
				hijackRetTick[c.Conn] = vrt.Tick()
			}
			if has(b, "closing") && closeT == nil {
				// round 8b: the proxy is shut down while this exchange is in flight. Close() runs on a thread of its
				// own (it returns only when the connection is over); the modifier returns once the proxy reports that
				// it is closing. No sleep: Closing() polls the closing channel, every poll is a scheduling point, and a
				// repeated poll parks this thread until some other thread has written something.
				closeT = vrt.GoNamed("closer", func() {
					w.Proxy.Close()
					closeRet = true
				})
				for !w.Proxy.Closing() {
				}
				closeSeen = true
			}
			if has(b, "reqerr") {
				return errMsg(b, "reqerr", "request modifier failed")
			}
			return nil
		}
		w.OnResponse = func(res *http.Response) error {
			c := rec("res", res.Request, res.Header)
			c.Warning = res.Header.Get("Warning")
			calls = append(calls, c)
			b := behOf(c.Conn, c.Seq)
			if mutates(b) {
				res.Header.Set("X-Res-Mut", c.Conn+"/"+c.Seq)
			}
			if has(b, "hijack-res") {
				hijack(res.Request)
				hijackRetTick[c.Conn] = vrt.Tick()
			}
			if has(b, "reserr") {
				return errMsg(b, "reserr", "response modifier failed")
			}
			return nil
		}
		w.Respond = func(req *http.Request) (*http.Response, error) {
			c := rec("rt", req, req.Header)
			c.Warning = strings.Join(req.Header["Warning"], "\n")
			c.ReqMut = req.Header.Get("X-Req-Mut")
			if b := behOf(c.Conn, c.Seq); req.Body != nil && !has(b, "rterr") {
				// like a transport, send the body (a failing round trip leaves it unread)
				bb, _ := io.ReadAll(req.Body)
				c.Body = string(bb)
			}
			rtCalls = append(rtCalls, c)
			// like http.Transport, refuse to send header fields that are not valid on the wire
			for name, vs := range req.Header {
				for _, v := range vs {
					if !httpguts.ValidHeaderFieldName(name) || !httpguts.ValidHeaderFieldValue(v) {
						return nil, fmt.Errorf("net/http: invalid header field value for %q", name)
					}
				}
			}
			if req.URL.Host == "" {
				return nil, errors.New("http: no Host in request URL") // like http.Transport
			}
			if b := behOf(c.Conn, c.Seq); has(b, "rterr") {
				// the class of the error must not matter: an upstream that hangs up (io.EOF) or times out is
				// answered with a 502 like any other failure
				switch {
				case has(b, "eof"):
					return nil, io.EOF
				case has(b, "timeout"):
					return nil, &net.OpError{Op: "read", Net: "tcp", Err: os.ErrDeadlineExceeded}
				}
				return nil, errors.New("simulated round trip failure")
			}
			res := pworld.SimpleResponse(req, 200, "origin says hi to "+c.Conn+"/"+c.Seq)
			if has(behOf(c.Conn, c.Seq), "rtclone") {
				// a wrapping RoundTripper that works on a clone of the request (req.Clone / req.WithContext, the
				// documented way to add headers or tracing): its response names the clone
				res.Request = req.Clone(req.Context())
			}
			return res, nil
		}
		// blind tunnels dial a target that echoes one line
		w.Proxy.SetDial(func(network, addr string) (net.Conn, error) {
			dials++
			dialTicks = append(dialTicks, vrt.Tick())
			if has(behOf("0", "0"), "dialerr") {
				return nil, errors.New("simulated dial failure")
			}
			a, b := simnet.Pipe("proxy>target", "target")
			vrt.GoNamed("target", func() {
				br := bufio.NewReader(b)
				if sc.Down {
					// the downstream proxy: answer the forwarded CONNECT, then behave as the tunnel's target
					req, err := http.ReadRequest(br)
					if err != nil || req.Method != "CONNECT" {
						b.Close()
						return
					}
					downSeen = append(downSeen, downObs{strings.Join(req.Header["Warning"], "\n"), req.Header.Get("X-Req-Mut")})
					if has(behOf("0", "0"), "downerr") {
						// the downstream proxy hangs up instead of answering: the other way into the 502 path
						b.Close()
						return
					}
					if has(behOf("0", "0"), "downref") {
						// the downstream proxy refuses the CONNECT (round 9): its answer is the response of this
						// exchange - the response modifier runs on it once and the client receives it
						b.Write([]byte("HTTP/1.1 407 Proxy Authentication Required\r\nProxy-Authenticate: Basic realm=\"down\"\r\nContent-Length: 0\r\n\r\n"))
						io.Copy(io.Discard, br)
						b.Close()
						return
					}
					b.Write([]byte("HTTP/1.1 200 OK\r\n\r\n"))
				}
				line, err := br.ReadString('\n')
				if err == nil {
					b.Write([]byte("echo:" + line))
				}
				io.Copy(io.Discard, br)
				b.Close()
			})
			return a, nil
		})
		if sc.Down {
			u, _ := url.Parse("http://downstream.test:3128")
			w.Proxy.SetDownstreamProxy(u)
		}
		w.Start()
		client := func(name string, mode string, beh []string, pipelined bool) {
			o := &clientObs{conn: name}
			obs = append(obs, o)
			defer func() { o.done = true }()
			cl, err := w.Dial("c" + name)
			if err != nil {
				o.err = err.Error()
				return
			}
			srvConn[name] = cl.C.Peer()
			var rw io.ReadWriter = cl.C
			br := bufio.NewReader(cl.C)
			defer cl.C.Close()
			readMarkerOrEOF := func(br *bufio.Reader) {
				// after a hijack the client expects the marker, then (after trying another request) EOF
				line, err := br.ReadString('\n')
				if line == marker {
					o.gotMarker = true
				} else if line != "" {
					o.extra += line
				}
				if err != nil {
					o.eofAfter = err == io.EOF || pworld.IsReset(err)
					return
				}
				fmt.Fprintf(rw, "GET http://origin.test/after-hijack HTTP/1.1\r\nHost: origin.test\r\nX-Conn: %s\r\nX-Seq: 99\r\n\r\n", name)
				o.sentAfterHijack = true
				rest, err := io.ReadAll(br)
				o.extra += string(rest)
				o.eofAfter = err == nil || pworld.IsReset(err)
			}
			start := 0
			if mode != "plain" {
				b0 := beh[0]
				first := fmt.Sprintf("CONNECT origin.test:443 HTTP/1.1\r\nHost: origin.test:443\r\nX-Conn: %s\r\nX-Seq: 0\r\n\r\n", name)
				if pipelined && isHijack(b0) {
					// a request right behind the CONNECT whose exchange is hijacked, in the same segment
					first += fmt.Sprintf("GET /x HTTP/1.1\r\nHost: origin.test\r\nX-Conn: %s\r\nX-Seq: 98\r\n\r\n", name)
				}
				io.WriteString(cl.C, first)
				if has(b0, "gone") {
					cl.C.Close()
					o.left = true
					return
				}
				if isHijack(b0) {
					readMarkerOrEOF(br)
					return
				}
				res, err := http.ReadResponse(br, &http.Request{Method: "CONNECT"})
				if err != nil {
					o.err = "connect: " + err.Error()
					return
				}
				o.statuses = append(o.statuses, res.StatusCode)
				o.warnings = append(o.warnings, res.Header.Get("Warning") != "")
				o.warnText = append(o.warnText, strings.Join(res.Header["Warning"], "\n"))
				o.resMut = append(o.resMut, res.Header.Get("X-Res-Mut"))
				if res.StatusCode != 200 {
					return
				}
				start = 1
				switch mode {
				case "blind":
					if has(b0, "skip") {
						// the modifier skipped the round trip: no tunnel exists behind the 200; the proxy closes
						rest, err := io.ReadAll(br)
						o.extra += string(rest)
						o.eofAfter = err == nil || pworld.IsReset(err)
						return
					}
					fmt.Fprintf(cl.C, "ping\n")
					line, _ := br.ReadString('\n')
					if line != "echo:ping\n" {
						o.err = fmt.Sprintf("tunnel echo: got %q", line)
					}
					return
				case "mitm-tls":
					roots := x509.NewCertPool()
					roots.AddCert(ca)
					tc := tls.Client(&bufConn{Conn: cl.C, r: br}, &tls.Config{ServerName: "origin.test", RootCAs: roots})
					if err := tc.Handshake(); err != nil {
						o.err = "tls: " + err.Error()
						return
					}
					rw = tc
					br = bufio.NewReader(tc)
				}
			}
			target := "http://origin.test/x"
			if mode == "mitm-tls" || mode == "mitm-plain" {
				target = "/x"
			}
			render := func(k int, b string) string {
				if sp := sc.spellOf(name, k); sp != "" {
					return renderSpelled(sp, name, k)
				}
				if has(b, "post") {
					return fmt.Sprintf("POST %s HTTP/1.1\r\nHost: origin.test\r\nX-Conn: %s\r\nX-Seq: %d\r\nContent-Length: %d\r\n\r\n%s", target, name, k, len(postBody), postBody)
				}
				return fmt.Sprintf("GET %s HTTP/1.1\r\nHost: origin.test\r\nX-Conn: %s\r\nX-Seq: %d\r\n\r\n", target, name, k)
			}
			if pipelined {
				var all string
				for k := start; k < len(beh); k++ {
					all += render(k, beh[k])
				}
				if isHijack(beh[len(beh)-1]) {
					// one more request right behind the one whose exchange is hijacked: it is already in the
					// proxy's read buffer when the modifier takes the connection over
					all += render(98, "pass")
				}
				io.WriteString(rw, all)
			}
			for k := start; k < len(beh); k++ {
				if !pipelined {
					io.WriteString(rw, render(k, beh[k]))
				}
				if isHijack(beh[k]) {
					readMarkerOrEOF(br)
					return
				}
				if has(beh[k], "gone") {
					// the client does not wait for the answer: it closes right behind its request. The request
					// is still one the proxy reads, so both modifiers owe it their single call.
					cl.C.Close()
					o.left = true
					return
				}
				res, err := http.ReadResponse(br, &http.Request{Method: "GET"})
				if err != nil {
					o.err = fmt.Sprintf("exchange %d: %v", k, err)
					o.closedAfterConnect = mode != "plain" && k == 1 && (err == io.EOF || err == io.ErrUnexpectedEOF || pworld.IsReset(err))
					return
				}
				io.ReadAll(res.Body)
				o.statuses = append(o.statuses, res.StatusCode)
				o.warnings = append(o.warnings, res.Header.Get("Warning") != "")
				o.warnText = append(o.warnText, strings.Join(res.Header["Warning"], "\n"))
				o.resMut = append(o.resMut, res.Header.Get("X-Res-Mut"))
			}
		}
		t0 := vrt.GoNamed("client0", func() { client("0", sc.Mode, sc.Beh, sc.Pipe) })
		var t1 *vrt.Thread
		if sc.Second {
			t1 = vrt.GoNamed("client1", func() { client("1", sc.mode2(), sc.beh2(), false) })
		}
		vrt.WaitQuiescent()
		if !t0.Done() || (t1 != nil && !t1.Done()) || (closeT != nil && !closeT.Done()) {
			vrt.Sleep(11 * time.Minute)
			vrt.WaitQuiescent()
		}
		if sc.After {
			// history across connections: everything above is over and closed; a new connection arrives
			t2 := vrt.GoNamed("client2", func() { client("2", "plain", []string{"pass"}, false) })
			vrt.WaitQuiescent()
			if !t2.Done() {
				vrt.Sleep(11 * time.Minute)
				vrt.WaitQuiescent()
			}
		}
		for _, rq := range retained {
			if martian.NewContext(rq) != nil {
				staleCtx++
			}
		}
		for _, c := range calls {
			vrt.Log("%s conn=%s seq=%s ctx=%v linger=%q sess=%q", c.Kind, c.Conn, c.Seq, c.Ctx != nil, c.Linger, c.SessVal)
		}
		for _, o := range obs {
			vrt.Log("client %s: %v %v %q marker=%v eof=%v extra=%q err=%q done=%v", o.conn, o.statuses, o.warnings, o.resMut, o.gotMarker, o.eofAfter, o.extra, o.err, o.done)
		}
		vrt.Log("stale=%d", staleCtx)
		if sc.closes() {
			vrt.Log("Close() called=%v, Closing() seen by the request modifier=%v, Close() returned=%v", closeT != nil, closeSeen, closeRet)
		}
		if rnd != nil {
			vrt.Log("random draws served: %d", len(rnd.served))
		}
	}
	check = func(r *vrt.Result) []finding {
		var out []finding
		add := func(sig, format string, a ...interface{}) { out = append(out, finding{sig, fmt.Sprintf(format, a...)}) }
		if r.Outcome != "ok" {
			add("outcome:"+r.Outcome, "execution ended with %s: %s", r.Outcome, firstLine(r.Panic))
			return out
		}
		tag := sc.Mode
		// round 8: the class of random draws the scenario serves is part of the signature of what depends on them
		dtag, ddesc := "", ""
		if sc.Draws != "" {
			dtag = ":" + drawClass(sc.Draws)
			ddesc = fmt.Sprintf(" although the random source served pairwise different draws (%s)", strings.Join(rnd.served, " "))
		}
		// index calls per exchange
		type key struct{ conn, seq string }
		reqs := map[key][]call{}
		ress := map[key][]call{}
		rts := map[key][]call{}
		for _, c := range calls {
			k := key{c.Conn, c.Seq}
			if c.Kind == "req" {
				reqs[k] = append(reqs[k], c)
			} else {
				ress[k] = append(ress[k], c)
			}
		}
		for _, c := range rtCalls {
			k := key{c.Conn, c.Seq}
			rts[k] = append(rts[k], c)
		}
		ids := map[string]key{}
		sessByConn := map[string]*martian.Session{}
		sessIDByConn := map[string]string{}
		checkExchange := func(conn string, k int, beh string) {
			mode, _ := sc.spec(conn)
			ky := key{conn, fmt.Sprint(k)}
			btag := tag + ":" + beh
			sp := sc.spellOf(conn, k)
			if sp != "" {
				btag += ":" + spellClass(sp)
			}
			// a request that names no host, outside a tunnel, which the request modifier does not route either
			unroutable := sp != "" && mode == "plain" && hostless(sp) && !has(beh, "route")
			rq := reqs[ky]
			if len(rq) != 1 {
				add("reqmod_count:"+btag, "exchange %v: request modifier ran %d times (want 1)", ky, len(rq))
				return
			}
			c := rq[0]
			if c.Ctx == nil {
				add("no_context_in_reqmod:"+btag, "exchange %v: no context retrievable inside the request modifier", ky)
				return
			}
			isConnect := mode != "plain" && k == 0
			wantMethod := "GET"
			switch {
			case isConnect:
				wantMethod = "CONNECT"
			case has(beh, "post"):
				wantMethod = "POST"
			}
			if c.Method != wantMethod {
				add("reqmod_wrong_request:"+btag, "exchange %v: the request modifier was handed a %q request, the client sent %s (the proxy is out of frame)", ky, c.Method, wantMethod)
			}
			if sp != "" && !hostless(sp) && c.Host != originHost {
				add("reqmod_request_host:"+btag, "exchange %v: the request handed to the request modifier names host %q, the client's request (%s) names %s", ky, c.Host, sp, originHost)
			}
			if c.Stale != "" {
				add("context_not_fresh:"+tag+":"+c.Stale, "exchange %v: when the request modifier started the context already carried %s from an earlier exchange", ky, c.Stale)
			}
			if c.Linger != "" {
				add("context_outlives_exchange:"+tag, "exchange %v: when its request modifier started, the requests of finished exchanges %s of the same connection still resolved to a context (martian.NewContext)", ky, c.Linger)
			}
			if strings.HasPrefix(c.SessVal, "foreign") {
				add("session_value_from_other_connection:"+tag, "exchange %v: the session already held a value stored on another connection (%s)", ky, c.SessVal)
			} else if c.SessVal == "lost" {
				add("session_value_lost:"+tag, "exchange %v: a value stored in the session by an earlier exchange of the connection is gone", ky)
			}
			if prev, dup := ids[c.CtxID]; dup {
				add("context_id_reused:"+btag+dtag, "exchanges %v and %v share context id %s%s", prev, ky, c.CtxID, ddesc)
			}
			ids[c.CtxID] = ky
			if s, ok := sessByConn[conn]; ok && s != c.Sess {
				add("session_not_shared:"+btag, "exchange %v runs in a different session than earlier exchanges of its connection", ky)
			}
			if id, ok := sessIDByConn[conn]; ok && id != c.SessID {
				add("session_not_shared:"+btag, "exchange %v: the session's id changed within the connection (%s, then %s)", ky, id, c.SessID)
			}
			sessByConn[conn] = c.Sess
			sessIDByConn[conn] = c.SessID
			want := conn + "/" + fmt.Sprint(k)
			// upstream contact
			switch {
			case has(beh, "skip") || has(beh, "hijack-req"):
				if len(rts[ky]) != 0 {
					add("upstream_contact_unexpected:"+btag, "exchange %v: %d round trips although the modifier asked to %s", ky, len(rts[ky]), beh)
				}
				if isConnect && mode == "blind" && dials != 0 {
					add("upstream_contact_unexpected:"+btag, "exchange %v: the CONNECT target was dialled %d times although the modifier asked to %s", ky, dials, beh)
				}
			case isConnect:
				if mode == "blind" {
					// the upstream contact of a tunnel is the dial (and the CONNECT forwarded to a downstream proxy)
					if dials < 1 {
						add("dial_count:"+btag, "exchange %v: the CONNECT target was never dialled", ky)
					} else if dialTicks[0] < c.Tick {
						add("upstream_before_reqmod:"+btag, "exchange %v: the CONNECT target was dialled before the request modifier ran", ky)
					}
					if sc.Down && !has(beh, "dialerr") && !has(beh, "gone") {
						if len(downSeen) != 1 {
							add("roundtrip_count:"+btag, "exchange %v: the downstream proxy received %d CONNECT requests (want 1)", ky, len(downSeen))
						} else {
							if mutates(beh) && downSeen[0].ReqMut != want {
								add("reqmod_change_lost:"+btag, "exchange %v: the CONNECT forwarded to the downstream proxy does not carry the header the request modifier set (X-Req-Mut=%q)", ky, downSeen[0].ReqMut)
							}
							if has(beh, "reqerr") && !strings.Contains(downSeen[0].Warning, "request modifier failed") {
								add("reqerr_no_warning:"+btag, "exchange %v: request modifier error not surfaced as a Warning header on the CONNECT forwarded to the downstream proxy (Warning=%q)", ky, downSeen[0].Warning)
							}
						}
					}
				}
			default:
				if unroutable {
					// nobody named a destination: the round trip can only fail (or be left out); what the statement
					// fixes is that both modifiers still get their single call and that an answer goes back
					if len(rts[ky]) > 1 {
						add("roundtrip_count:"+btag, "exchange %v: %d round trips (want at most 1)", ky, len(rts[ky]))
					}
					break
				}
				if len(rts[ky]) != 1 {
					add("roundtrip_count:"+btag, "exchange %v: %d round trips (want 1)", ky, len(rts[ky]))
				} else {
					if sp != "" {
						// upstream contact is with the host the request names once the request modifier is done with it
						wantHost := originHost
						if hostless(sp) {
							wantHost = ""
							if has(beh, "route") && mode == "plain" {
								wantHost = routedHost
							}
						}
						if wantHost != "" && rts[ky][0].Host != wantHost {
							add("upstream_other_host:"+btag, "exchange %v (%s): the round tripper was handed a request for host %q, want %q", ky, sp, rts[ky][0].Host, wantHost)
						}
					}
					if rts[ky][0].Tick < c.Tick {
						add("upstream_before_reqmod:"+btag, "exchange %v: origin contacted before the request modifier ran", ky)
					}
					if has(beh, "reqerr") && rts[ky][0].Warning == "" {
						add("reqerr_no_warning:"+btag, "exchange %v: request modifier error not surfaced as a Warning header on the forwarded request", ky)
					} else if has(beh, "reqerr") && !strings.Contains(rts[ky][0].Warning, "request modifier failed") {
						add("reqerr_warning_without_error:"+btag, "exchange %v: the Warning header on the forwarded request does not name the request modifier's error (%q)", ky, rts[ky][0].Warning)
					}
					if mutates(beh) && rts[ky][0].ReqMut != want {
						add("reqmod_change_lost:"+btag, "exchange %v: the forwarded request does not carry the header the request modifier set (X-Req-Mut=%q)", ky, rts[ky][0].ReqMut)
					}
					if !mutates(beh) && rts[ky][0].ReqMut != "" {
						add("reqmod_change_from_other_exchange:"+btag, "exchange %v: the forwarded request carries X-Req-Mut=%q, which only another exchange's request modifier set", ky, rts[ky][0].ReqMut)
					}
					if has(beh, "post") && !has(beh, "rterr") && rts[ky][0].Body != postBody {
						add("request_body_changed:"+btag, "exchange %v: the round tripper read the body %q, the client sent %q", ky, rts[ky][0].Body, postBody)
					}
				}
			}
			rs := ress[ky]
			if has(beh, "hijack-req") {
				if len(rs) != 0 {
					add("resmod_after_hijack:"+btag, "exchange %v: response modifier ran %d times after the request modifier hijacked the connection", ky, len(rs))
				}
				return
			}
			if len(rs) != 1 {
				add("resmod_count:"+btag, "exchange %v: response modifier ran %d times (want 1)", ky, len(rs))
				return
			}
			if rs[0].Req != c.Req {
				add("resmod_other_request:"+btag, "exchange %v: the response's Request is not the request the request modifier saw", ky)
			}
			if rs[0].Ctx != c.Ctx {
				add("context_differs:"+btag, "exchange %v: request and response modifiers saw different contexts", ky)
			}
			if rs[0].Tick < c.Tick {
				add("resmod_before_reqmod:"+btag, "exchange %v: response modifier ran before the request modifier", ky)
			}
			if (has(beh, "rterr") || (isConnect && (has(beh, "dialerr") || has(beh, "downerr")))) && rs[0].Warning == "" {
				add("rterr_no_warning_in_resmod:"+btag, "exchange %v: the 502 seen by the response modifier has no Warning header", ky)
			}
		}
		// A modifier that asks to skip the round trip of a CONNECT the proxy would intercept: the statement fixes
		// the 200 and the response modifier, not whether an intercepted tunnel follows. Serving the tunnel (what
		// the proxy does) and closing after the 200 without reading anything from the tunnel (what it does for
		// a blind tunnel) are both accepted; in the second case no exchange inside the tunnel is expected.
		tunnelRefused := func(conn string) bool {
			mode, beh := sc.spec(conn)
			if !strings.HasPrefix(mode, "mitm") || !has(beh[0], "skip") {
				return false
			}
			for ky := range reqs {
				if ky.conn == conn && ky.seq != "0" {
					return false
				}
			}
			for _, o := range obs {
				if o.conn == conn {
					return o.closedAfterConnect && len(o.statuses) == 1 && o.statuses[0] == 200
				}
			}
			return false
		}
		expectFor := func(conn string) (int, int) {
			mode, beh := sc.spec(conn)
			if tunnelRefused(conn) {
				return 1, -1
			}
			return expect(mode, beh)
		}
		// what each error of a behaviour must leave in the Warning headers of the response
		warnTexts := func(b string) map[string]string {
			m := map[string]string{}
			if has(b, "reserr") {
				m["reserr"] = "response modifier failed"
			}
			if has(b, "dialerr") {
				m["dialerr"] = "simulated dial failure"
			}
			if has(b, "rterr") {
				switch {
				case has(b, "eof"):
					m["rterr"] = "EOF"
				case has(b, "timeout"):
					m["rterr"] = "i/o timeout"
				default:
					m["rterr"] = "simulated round trip failure"
				}
			}
			return m
		}
		checkClient := func(o *clientObs) {
			_, beh := sc.spec(o.conn)
			nExpected, hijackedAt := expectFor(o.conn)
			if o.err != "" && !tunnelRefused(o.conn) {
				add("client_error:"+tag, "client %s: %s", o.conn, o.err)
			}
			idx := 0
			for k := 0; k < nExpected; k++ {
				b := beh[k]
				if isHijack(b) || has(b, "gone") {
					break
				}
				mode, _ := sc.spec(o.conn)
				sp := sc.spellOf(o.conn, k)
				unroutable := sp != "" && mode == "plain" && hostless(sp) && !has(b, "route") && !has(b, "skip")
				bt := b
				if sp != "" {
					bt += ":" + spellClass(sp)
				}
				if idx >= len(o.statuses) {
					add("missing_response:"+tag+":"+bt, "client %s received no response for exchange %d (%s)", o.conn, k, b)
					break
				}
				want := 200
				if has(b, "rterr") || has(b, "dialerr") || has(b, "downerr") {
					want = 502
				}
				if has(b, "downref") {
					want = 407
				}
				if o.statuses[idx] != want && !unroutable { // (the statement does not fix the status of a request nobody routed)
					add("wrong_status:"+tag+":"+bt, "exchange %d (%s): client received status %d, want %d", k, b, o.statuses[idx], want)
				}
				wantWarn := has(b, "reserr") || has(b, "rterr") || has(b, "dialerr") || has(b, "downerr")
				if wantWarn && !o.warnings[idx] {
					add("no_warning_at_client:"+tag+":"+bt, "exchange %d (%s): response reached the client without a Warning header", k, b)
				} else if wantWarn {
					texts := warnTexts(b)
					for _, src := range vrt.SortedKeys(texts) {
						if !strings.Contains(o.warnText[idx], texts[src]) {
							add("warning_lost_at_client:"+tag+":"+bt+":"+src, "exchange %d (%s): the response's Warning headers %q do not name the %s error (%q): not every error was surfaced", k, b, o.warnText[idx], src, texts[src])
						}
					}
				}
				if wantMut := o.conn + "/" + fmt.Sprint(k); mutates(b) && o.resMut[idx] != wantMut {
					add("resmod_change_lost:"+tag+":"+bt, "exchange %d (%s): the response reached the client without the header the response modifier set (X-Res-Mut=%q, want %q)", k, b, o.resMut[idx], wantMut)
				} else if !mutates(b) && o.resMut[idx] != "" {
					add("resmod_change_from_other_exchange:"+tag+":"+bt, "exchange %d (%s): the response carries X-Res-Mut=%q, which only another exchange's response modifier set", k, b, o.resMut[idx])
				}
				idx++
			}
			if hijackedAt >= 0 {
				hb := beh[hijackedAt]
				if sp := sc.spellOf(o.conn, hijackedAt); sp != "" {
					hb += ":" + spellClass(sp)
				}
				if !o.gotMarker {
					add("hijack_marker_lost:"+tag+":"+hb, "the bytes written by the hijacker did not reach the client (extra=%q)", o.extra)
				}
				if o.extra != "" {
					add("bytes_after_hijack:"+tag+":"+hb, "client received %q on a hijacked connection (the proxy wrote to it)", o.extra)
				}
				if !o.eofAfter {
					add("hijacked_conn_not_closed:"+tag+":"+hb, "hijacked connection was not closed after the modifier returned")
				}
				// proxy-side socket activity after the hijack
				if sv := srvConn[o.conn]; sv != nil {
					if t, ok := hijackRetTick[o.conn]; ok {
						for _, op := range sv.Ops {
							if op.Tick > t && (op.Kind == "read" || op.Kind == "write") {
								add("proxy_io_after_hijack:"+tag+":"+hb+":"+op.Kind, "proxy issued a %s on the connection after the hijacking modifier returned", op.Kind)
								break
							}
						}
						if !sv.Closed() {
							add("hijacked_conn_left_open:"+tag+":"+hb, "proxy never closed the hijacked connection")
						}
					}
				}
			}
		}
		conns := []string{"0"}
		if sc.Second {
			conns = append(conns, "1")
		}
		if sc.After {
			conns = append(conns, "2")
		}
		for _, cn := range conns {
			_, beh := sc.spec(cn)
			nExpected, _ := expectFor(cn)
			for k := 0; k < nExpected; k++ {
				checkExchange(cn, k, beh[k])
			}
			// no modifier call for anything else (e.g. a request sent after a hijack)
			var kys []key
			for ky := range reqs {
				kys = append(kys, ky)
			}
			sort.Slice(kys, func(i, j int) bool { return kys[i].conn+"/"+kys[i].seq < kys[j].conn+"/"+kys[j].seq })
			for _, ky := range kys {
				var k int
				fmt.Sscanf(ky.seq, "%d", &k)
				if ky.conn == cn && k >= nExpected {
					add("reqmod_on_unexpected_request:"+tag, "request modifier ran %d times for request %v (sent after the connection was hijacked / the tunnel was established)", len(reqs[ky]), ky)
				}
			}
		}
		for i, a := range conns {
			for _, b := range conns[i+1:] {
				// the later connection starts when the others are over: an implementation may recycle the object,
				// so it is told apart by what the API shows (id, stored values), not by its address
				if b != "2" && sessByConn[a] != nil && sessByConn[a] == sessByConn[b] {
					add("session_shared_across_connections:"+tag, "connections %s and %s share one session", a, b)
				} else if sessIDByConn[a] != "" && sessIDByConn[a] == sessIDByConn[b] {
					add("session_shared_across_connections:"+tag+dtag, "the sessions of connections %s and %s have the same id %s%s", a, b, sessIDByConn[a], ddesc)
				}
			}
		}
		// client side
		for _, o := range obs {
			if !o.done {
				add("client_stuck:"+tag, "client %s did not finish even after the idle timeout", o.conn)
				continue
			}
			if o.conn == "1" && sc.Beh2 == nil && sc.Mode2 == "" {
				if o.err != "" || len(o.statuses) != 1 || o.statuses[0] != 200 {
					add("second_connection_failed:"+tag, "second connection: statuses=%v err=%s", o.statuses, o.err)
				}
				continue
			}
			if o.conn == "2" {
				if o.err != "" || len(o.statuses) != 1 || o.statuses[0] != 200 {
					add("later_connection_failed:"+tag, "a connection opened after all others had ended: statuses=%v err=%s", o.statuses, o.err)
				}
				continue
			}
			checkClient(o)
		}
		if sc.closes() {
			// round 8b. The exchange during whose request modifier Close() was called is judged above like any other
			// (whether its response is marked Connection: close is C07's business). Here: the scenario did what it is
			// there for, and it came to an end - Close() waits for the connection, which ends with this exchange.
			switch {
			case closeT == nil:
				if n := len(reqs[key{"0", fmt.Sprint(len(sc.Beh) - 1)}]); n != 0 {
					add("harness:close_not_called:"+tag, "the request modifier of the last exchange ran %d times but Proxy.Close() was not called", n)
				}
			case !closeSeen:
				add("closing_never_reported:"+tag, "Proxy.Close() was called from the request modifier of the last exchange, but Proxy.Closing() never reported true to it (the modifier never returned)")
			case !closeRet:
				add("close_stuck:"+tag, "Proxy.Close(), called while the last exchange of the only connection was in flight, had not returned when everything else had ended and the idle timeout had passed")
			}
		}
		if staleCtx != 0 {
			add("context_leak:"+tag, "%d requests of finished exchanges still resolve to a context (martian.NewContext)", staleCtx)
		}
		return out
	}
	return
}

// bufConn lets a TLS client read through the bufio.Reader that consumed the CONNECT response.
type bufConn struct {
	net.Conn
	r *bufio.Reader
}

func (b *bufConn) Read(p []byte) (int, error) { return b.r.Read(p) }

func firstLine(s string) string {
	if i := strings.IndexByte(s, '\n'); i >= 0 {
		return s[:i]
	}
	return s
}

func scenarios(tier string) []scenario {
	var out []scenario
	inner := []string{"pass", "reqerr", "reserr", "skip", "rterr", "hijack-req", "hijack-res", "rterr+hijack-res", "skip+hijack-res", "reqerr+hijack-res", "reqerr+reserr", "mlreqerr", "mlreserr", "mlreqerr+mlreserr", "rtclone", "skip+api+skiplog", "preapi+skip", "rterr+eof", "rterr+timeout",
		// added by the audit: a modifier that only changes the messages; requests with a body (which a skipped
		// or failed round trip leaves unread); two errors on one response; a hijacker whose modifier also fails
		"mut", "post", "skip+post", "rterr+post", "rterr+reserr", "hijack-req+reqerr", "hijack-res+reserr",
		// ... and a client that closes behind its request without waiting for the answer (always the last exchange)
		"gone", "skip+gone", "rterr+gone", "reserr+gone"}
	core := map[string]bool{"pass": true, "reqerr": true, "reserr": true, "skip": true, "rterr": true, "hijack-req": true, "hijack-res": true, "rtclone": true}
	audit := map[string]bool{"mut": true, "post": true, "skip+post": true, "rterr+post": true, "rterr+reserr": true, "hijack-req+reqerr": true, "hijack-res+reserr": true,
		"gone": true, "skip+gone": true, "rterr+gone": true, "reserr+gone": true}
	// plain: all behaviour sequences of length 1..2 (3 thorough)
	maxLen := 2
	if tier == "thorough" {
		maxLen = 3
	}
	lib.Sequences(len(inner), maxLen, func(seq []int) {
		if len(seq) == 0 {
			return
		}
		var beh []string
		nAudit, nCore := 0, 0
		for i, x := range seq {
			beh = append(beh, inner[x])
			if (isHijack(inner[x]) || has(inner[x], "gone")) && i != len(seq)-1 {
				return // nothing follows a hijack or a client that left
			}
			if audit[inner[x]] {
				nAudit++
			}
			if core[inner[x]] {
				nCore++
			}
		}
		if len(seq) >= 3 {
			// sequences of three exchanges over the eight basic behaviours only (the combinations and spelling
			// variants run in the sequences of one and two)
			for _, b := range beh {
				if !core[b] {
					return
				}
			}
		}
		if len(seq) == 2 && nAudit > 0 && nCore == 0 {
			return // the audit's behaviours are paired with the eight basic ones
		}
		out = append(out, scenario{Mode: "plain", Beh: beh})
		hj, gone := false, false
		for _, b := range beh {
			hj = hj || isHijack(b)
			gone = gone || has(b, "gone")
		}
		if len(seq) >= 2 && !hj && !gone {
			out = append(out, scenario{Mode: "plain", Beh: beh, Pipe: true})
		}
		if hj && len(seq) <= 2 && (len(seq) == 1 || core[beh[0]]) {
			// the hijacked exchange's request and one more request arrive in one segment
			out = append(out, scenario{Mode: "plain", Beh: beh, Pipe: true})
		}
		if len(seq) <= 2 {
			out = append(out, scenario{Mode: "plain", Beh: beh, Second: true})
		}
		if len(seq) == 1 {
			out = append(out, scenario{Mode: "plain", Beh: beh, After: true})
		}
	})
	// two connections that both do something: every pair of the state-changing basic behaviours, and two
	// exchanges on each side (context ids, sessions and the context table across 4 exchanges)
	pairs := []string{"reqerr", "skip", "rterr", "hijack-req", "hijack-res", "post"}
	for _, x := range pairs {
		for _, y := range pairs {
			out = append(out, scenario{Mode: "plain", Beh: []string{x}, Second: true, Beh2: []string{y}})
		}
	}
	for _, two := range [][]string{{"pass", "pass"}, {"mut", "skip"}, {"rterr", "hijack-res"}, {"skip+post", "hijack-req"}} {
		out = append(out, scenario{Mode: "plain", Beh: []string{"pass", "mut"}, Second: true, Beh2: two},
			scenario{Mode: "plain", Beh: two, Second: true, Beh2: two, After: true})
	}
	for _, b0 := range []string{"pass", "reqerr", "reserr", "dialerr", "hijack-req", "hijack-res", "dialerr+hijack-res", "dialerr+reserr", "reqerr+hijack-res", "skip", "skip+reserr", "skip+hijack-res", "preapi+skip", "mut", "hijack-req+reqerr", "hijack-res+reserr", "gone", "reserr+gone"} {
		out = append(out, scenario{Mode: "blind", Beh: []string{b0}}, scenario{Mode: "blind", Beh: []string{b0}, Second: true})
		if !has(b0, "dialerr") {
			out = append(out, scenario{Mode: "blind", Beh: []string{b0}, Down: true})
		}
		out = append(out, scenario{Mode: "blind", Beh: []string{b0}, After: true})
	}
	// the downstream proxy hangs up instead of answering the forwarded CONNECT (the second way into the 502 path)
	// ... or refuses it with a 407 (round 9): the refusal is the response of the exchange, modifiers run once
	for _, b0 := range []string{"downref", "downref+reserr", "downref+hijack-res", "reqerr+downref", "downref+mut"} {
		out = append(out, scenario{Mode: "blind", Beh: []string{b0}, Down: true}, scenario{Mode: "blind", Beh: []string{b0}, Down: true, After: true})
	}
	for _, b0 := range []string{"downerr", "downerr+reserr", "downerr+hijack-res", "reqerr+downerr"} {
		out = append(out, scenario{Mode: "blind", Beh: []string{b0}, Down: true}, scenario{Mode: "blind", Beh: []string{b0}, Down: true, After: true})
	}
	for _, mode := range []string{"mitm-plain", "mitm-tls"} {
		for _, b0 := range []string{"pass", "reqerr", "reserr", "hijack-req", "hijack-res", "reqerr+hijack-res"} {
			if isHijack(b0) {
				out = append(out, scenario{Mode: mode, Beh: []string{b0}}, scenario{Mode: mode, Beh: []string{b0}, After: true}, scenario{Mode: mode, Beh: []string{b0}, Pipe: true})
				continue
			}
			for _, b1 := range inner {
				out = append(out, scenario{Mode: mode, Beh: []string{b0, b1}})
				if b0 == "pass" && !isHijack(b1) && !has(b1, "gone") {
					for _, b2 := range []string{"pass", "hijack-req", "hijack-res"} {
						out = append(out, scenario{Mode: mode, Beh: []string{b0, b1, b2}})
					}
				}
			}
		}
		// the CONNECT exchange itself skips its (non-existent) round trip, or only changes the messages
		out = append(out, scenario{Mode: mode, Beh: []string{"gone"}}, scenario{Mode: mode, Beh: []string{"reqerr+gone"}, After: true})
		for _, b0 := range []string{"skip", "mut", "skip+reserr"} {
			for _, b1 := range inner {
				if core[b1] || b1 == "mut" || b1 == "post" {
					out = append(out, scenario{Mode: mode, Beh: []string{b0, b1}})
				}
			}
		}
		out = append(out, scenario{Mode: mode, Beh: []string{"pass", "pass"}, Second: true})
		out = append(out, scenario{Mode: mode, Beh: []string{"pass", "pass", "reserr"}, Pipe: true}, scenario{Mode: mode, Beh: []string{"pass", "skip", "rterr"}, Pipe: true})
		// audit: a request behind the hijacked one in the same segment (inside the tunnel); a later connection
		// after a tunnel that ended in a hijack; unread request bodies inside the tunnel, pipelined; two
		// intercepted tunnels at once
		out = append(out,
			scenario{Mode: mode, Beh: []string{"pass", "hijack-req"}, Pipe: true},
			scenario{Mode: mode, Beh: []string{"pass", "pass", "hijack-res"}, Pipe: true},
			scenario{Mode: mode, Beh: []string{"pass", "hijack-req"}, After: true},
			scenario{Mode: mode, Beh: []string{"pass", "mut", "hijack-res"}, After: true},
			scenario{Mode: mode, Beh: []string{"pass", "skip+post", "mut"}, Pipe: true},
			scenario{Mode: mode, Beh: []string{"pass", "rterr+post", "post"}, Pipe: true},
			scenario{Mode: mode, Beh: []string{"pass", "mut"}, Second: true, Mode2: mode, Beh2: []string{"pass", "hijack-req"}},
			scenario{Mode: mode, Beh: []string{"reqerr", "skip"}, Second: true, Mode2: mode, Beh2: []string{"mut", "rterr"}, After: true})
	}
	// round 8b: Proxy.Close() while an exchange is in flight
	out = append(out, closingScenarios()...)
	// round 7: request spellings (target form x Host header x protocol version), see spell.go
	out = append(out, spellScenarios(tier)...)
	// round 8: the random source scripted - pairwise different draws that differ in one byte only, see draws.go
	out = append(out, drawScenarios(tier)...)
	return out
}

// closingScenarios (round 8b): the proxy is shut down while an exchange is in flight. "closing" = the request modifier
// starts Proxy.Close() on another thread and returns when Proxy.Closing() reports true; it is always the last exchange
// of the only connection of its scenario (Close() ends the connection after it, and nothing is accepted afterwards).
// Combined with what else the modifiers / the round trip of that exchange do, with what the connection carried before,
// with pipelining, and with the proxy modes.
func closingScenarios() []scenario {
	var out []scenario
	last := []string{"closing", "reqerr+closing", "reserr+closing", "skip+closing", "rterr+closing", "mut+closing"}
	before := []string{"pass", "reqerr", "reserr", "skip", "rterr", "mut"}
	for _, y := range last {
		out = append(out, scenario{Mode: "plain", Beh: []string{y}})
		for _, x := range before {
			out = append(out, scenario{Mode: "plain", Beh: []string{x, y}}, scenario{Mode: "plain", Beh: []string{x, y}, Pipe: true})
		}
	}
	// a blind tunnel: the CONNECT exchange is the only one (the tunnel behind it lives on until the client is done)
	for _, y := range []string{"closing", "reqerr+closing", "reserr+closing", "skip+closing", "mut+closing", "dialerr+closing"} {
		out = append(out, scenario{Mode: "blind", Beh: []string{y}})
		if !has(y, "dialerr") {
			out = append(out, scenario{Mode: "blind", Beh: []string{y}, Down: true})
		}
	}
	out = append(out, scenario{Mode: "blind", Beh: []string{"downerr+closing"}, Down: true})
	// inside an intercepted tunnel
	for _, y := range last {
		for _, b0 := range []string{"pass", "reqerr", "mut"} {
			out = append(out, scenario{Mode: "mitm-plain", Beh: []string{b0, y}})
		}
		for _, x := range []string{"pass", "skip", "rterr"} {
			out = append(out, scenario{Mode: "mitm-plain", Beh: []string{"pass", x, y}})
		}
		out = append(out, scenario{Mode: "mitm-plain", Beh: []string{"pass", "pass", y}, Pipe: true})
		out = append(out, scenario{Mode: "mitm-tls", Beh: []string{"pass", y}})
	}
	return out
}

// added reports whether a scenario belongs to the families the audit added (see AUDIT.md).
func added(sc scenario) bool {
	if sc.After || sc.Beh2 != nil || sc.Mode2 != "" || sc.Spell != nil || sc.Draws != "" {
		return true
	}
	for i, b := range sc.Beh {
		for _, p := range strings.Split(b, "+") {
			if p == "mut" || p == "post" || p == "gone" || p == "downerr" || p == "downref" || p == "closing" {
				return true
			}
		}
		if b == "rterr+reserr" || b == "hijack-req+reqerr" || b == "hijack-res+reserr" {
			return true
		}
		if sc.Pipe && isHijack(b) {
			return true
		}
		if i == 0 && strings.HasPrefix(sc.Mode, "mitm") && has(b, "skip") {
			return true
		}
	}
	return false
}

type shardOut struct {
	Counters   map[string]int64
	Violations []lib.Violation
	Samples    []interface{}
	Incomplete string
	MinBound   int
}

func main() {
	tier := lib.Tier()
	initMITM()
	scen := scenarios(tier)
	if fam := os.Getenv("C02_ONLY"); fam == "spell" || fam == "draws" || fam == "closing" {
		// development aid: only the request-spelling family of round 7 / the random-draw family of round 8 (to
		// measure it on its own)
		var only []scenario
		for _, sc := range scen {
			if (sc.Spell != nil && fam == "spell") || (sc.Draws != "" && fam == "draws") || (sc.closes() && fam == "closing") {
				only = append(only, sc)
			}
		}
		scen = only
	}
	if rp := os.Getenv("VERIF_REPLAY"); rp != "" {
		var doc struct {
			First struct {
				Replay struct {
					Scenario scenario
					Schedule []int
				}
			}
		}
		b, err := os.ReadFile(rp)
		if err != nil || json.Unmarshal(b, &doc) != nil {
			fmt.Fprintln(os.Stderr, "cannot read replay", rp, err)
			os.Exit(2)
		}
		body, check := run(doc.First.Replay.Scenario)
		r := vrt.Run(vrt.Config{Trace: true, MaxPoints: 100000}, doc.First.Replay.Schedule, body)
		for _, l := range r.Trace {
			fmt.Println("  ", l)
		}
		fmt.Println("outcome:", r.Outcome, r.Panic)
		for _, l := range r.Log {
			fmt.Println("log:", l)
		}
		fs := check(r)
		for _, f := range fs {
			fmt.Printf("VIOLATION property=C02 replay=%s\n  %s: %s\n", rp, f.Sig, f.Desc)
		}
		if len(fs) > 0 {
			os.Exit(1)
		}
		return
	}
	if i, n := lib.ShardEnv(); n > 0 {
		out := &shardOut{Counters: map[string]int64{}, MinBound: 99}
		per := 30 * time.Second
		if tier == "thorough" {
			per = 90 * time.Second
		}
		for si, sc := range scen {
			if si%n != i {
				continue
			}
			b := 1
			if tier == "thorough" {
				b = 3
				if sc.Second {
					b = 2 // two concurrent connections: the third deviation does not complete inside the per-scenario deadline
				} else if len(sc.Beh) >= 3 {
					b = 1 // the length-3 sequences are many (17^3 and their pipelined variants): deviation bound 1
				} else if added(sc) {
					b = 2 // the audit's scenarios (about half as many again): one deviation less than the original ones
				}
				if sc.Draws != "" && !strings.HasSuffix(sc.Draws, "base="+drawBases[0]) {
					b = 1 // scripted random source: the second common byte value repeats the first one's scenarios at bound 1
				}
			}
			if sc.Mode == "mitm-tls" {
				b--
			}
			// the two probes the audit added to the modifiers lengthen every execution by a few scheduling
			// points; at bound 3 that costs about a quarter more executions, so they stay with the bounds <= 2
			// (all of quick, and in thorough the audit's scenarios and the sequences of three)
			sc.Lean = b >= 3 || (b == 2 && sc.Mode == "mitm-tls" && !added(sc))
			body, check := run(sc)
			seen := map[string]bool{}
			st := vrt.Explore(vrt.ExploreConfig{Bound: b, Deadline: time.Now().Add(per), Config: vrt.Config{MaxPoints: 100000}}, body, func(prefix []int, r *vrt.Result) bool {
				for _, f := range check(r) {
					if !seen[f.Sig] {
						seen[f.Sig] = true
						if err := vrt.Confirm(vrt.Config{MaxPoints: 100000, MaxVTime: 3 * time.Hour}, r, body, 3); err != nil {
							fmt.Fprintln(os.Stderr, "ENGINE ERROR:", err)
							os.Exit(2)
						}
						out.Violations = append(out.Violations, lib.Violation{Sig: f.Sig, Desc: fmt.Sprintf("scenario {%s} schedule %v: %s", sc, r.ChoiceSeq(), f.Desc),
							Replay: map[string]interface{}{"scenario": sc, "schedule": r.ChoiceSeq(), "log": r.Log}})
					}
				}
				return true
			})
			if st.EngineError != "" {
				fmt.Fprintln(os.Stderr, "ENGINE ERROR:", st.EngineError)
				os.Exit(2)
			}
			if d := os.Getenv("C02_DUMP"); d != "" {
				// development aid: per-scenario execution counts (to find a scenario whose count varies between runs)
				if f, err := os.OpenFile(fmt.Sprintf("%s.%d", d, i), os.O_APPEND|os.O_CREATE|os.O_WRONLY, 0o644); err == nil {
					fmt.Fprintf(f, "%s\texecs=%d\tlogs=%d\n", sc, st.Execs, st.DistinctLogs)
					f.Close()
				}
			}
			out.Counters["scenarios"]++
			out.Counters["executions"] += int64(st.Execs)
			out.Counters["points"] += st.Points
			out.Counters["distinct_outcomes"] += int64(st.DistinctLogs)
			out.Counters["horizon_hits"] += int64(st.HorizonHits)
			if st.DistinctLogs > 1 {
				out.Counters["scenarios_with_multiple_outcomes"]++
			}
			if !st.Exhaustive {
				out.Counters["scenarios_capped"]++
				out.Incomplete = fmt.Sprintf("scenario {%s}: cap hit, bound completed %d", sc, st.BoundCompleted)
			}
			if st.BoundCompleted < out.MinBound {
				out.MinBound = st.BoundCompleted
			}
			if len(out.Samples) < 2 {
				out.Samples = append(out.Samples, map[string]interface{}{"scenario": sc.String(), "executions": st.Execs, "distinct_outcomes": st.DistinctLogs, "bound": b})
			}
		}
		b, _ := json.Marshal(out)
		os.WriteFile(os.Getenv("VERIF_SHARD_OUT"), b, 0o644)
		return
	}
	rep := lib.NewReport("C02", "model_checking")
	files, errs, outs := lib.RunShards(16, lib.Root+"/.build/c02/shards")
	minBound := 99
	for i, f := range files {
		if errs[i] != nil {
			fmt.Fprintf(os.Stderr, "shard %d failed: %v\n%s\n", i, errs[i], outs[i])
			os.Exit(2)
		}
		var so shardOut
		b, _ := os.ReadFile(f)
		if err := json.Unmarshal(b, &so); err != nil {
			fmt.Fprintf(os.Stderr, "shard %d: bad output: %v\n", i, err)
			os.Exit(2)
		}
		for k, v := range so.Counters {
			rep.Count(k, v)
		}
		for _, v := range so.Violations {
			rep.Violate(v.Sig, v.Desc, v.Replay)
		}
		for _, s := range so.Samples {
			rep.Sample(8, s)
		}
		if so.Incomplete != "" {
			rep.Incomplete = so.Incomplete
		}
		if so.MinBound < minBound {
			minBound = so.MinBound
		}
	}
	rep.Coverage["states"] = rep.Counter("distinct_outcomes")
	rep.Coverage["transitions"] = rep.Counter("points")
	rep.Coverage["traces_validated_against_impl"] = rep.Counter("executions")
	rep.Coverage["bound_completed"] = minBound
	rep.Coverage["evaluations"] = rep.Counter("executions")
	rep.Coverage["distinct_nontrivial"] = rep.Counter("scenarios_with_multiple_outcomes")
	rep.Coverage["rule"] = "a case is a scenario (proxy mode x behaviour of each exchange on the first connection x optional second concurrent connection with its own mode and behaviours x optional later connection x pipelining x downstream proxy); all its executions are the schedules with at most the stated number of deviations from the default schedule, and the whole oracle is evaluated on every one of them; a scenario counts as non-trivial when its observation log depends on the schedule (at least two distinct logs)"
	rep.Coverage["exhaustive"] = rep.Incomplete == ""
	nAdded := 0
	for _, sc := range scen {
		if added(sc) {
			nAdded++
		}
	}
	rep.Coverage["scenarios_added_by_audit"] = nAdded
	nSpelled := 0
	for _, sc := range scen {
		if sc.Spell != nil {
			nSpelled++
		}
	}
	rep.Coverage["scenarios_request_spellings"] = nSpelled
	nDraws := 0
	for _, sc := range scen {
		if sc.Draws != "" {
			nDraws++
		}
	}
	rep.Coverage["scenarios_scripted_random_source"] = nDraws
	nClosing := 0
	for _, sc := range scen {
		if sc.closes() {
			nClosing++
		}
	}
	rep.Coverage["scenarios_close_in_flight"] = nClosing
	rep.Coverage["close_in_flight"] = fmt.Sprintf("%d scenarios in which Proxy.Close() is called (on a thread of its own) by the request modifier of the last exchange of the only connection, which returns once Proxy.Closing() reports true: that exchange x {pass, reqerr, reserr, skip, rterr, mut} alone / after each of {pass, reqerr, reserr, skip, rterr, mut} on the same connection (also pipelined); a blind CONNECT (direct / downstream proxy / dial or downstream failure); the last of one or two exchanges inside an intercepted tunnel (plaintext; TLS: one); the whole oracle applies to that exchange unchanged, and Close() must have returned at the end", nClosing)
	rep.Coverage["scripted_random_source"] = fmt.Sprintf("%d scenarios in which crypto/rand.Reader is a scripted reader for the execution: all draws pairwise different 8-byte values that differ in byte p only (p = 0..7: common prefix of p and common suffix of 7-p bytes) x differing in the low bits / in the high nibble only x common byte value; shapes: two concurrent plain connections with two exchanges each plus a later one, two intercepted plaintext tunnels, a blind tunnel beside a plain connection and a later one (thorough: also three exchanges on one connection, pipelined beside a second connection, tunnel with two inner exchanges); oracle: all context ids of the execution and the session ids of different connections pairwise different", nDraws)
	rep.Coverage["request_spellings"] = fmt.Sprintf("%d spellings = target form %v x Host header %v x version %v; each x 7 behaviours (pass, route = the request modifier names the host of a request that names none, skip, reqerr, route+reserr, hijack-req, route+hijack-res) as a single exchange, keep-alive spellings followed by every spelling on the same connection, every spelling as the first request inside an intercepted tunnel", len(allSpellings()), spellForms, spellHosts, spellVersions)
	rep.Coverage["bounds"] = fmt.Sprintf("%d scenarios (%d of them from the audit, AUDIT.md): plain mode with all behaviour sequences (30 behaviours incl. combinations: errors with one- and multi-line messages, two errors on one response, skip round trip combined with the other context marks in both orders, a RoundTripper answering on a clone of the request, modifiers that change the messages, requests with a body that a skipped or failed round trip leaves unread, hijackers whose modifier also fails, clients that close behind their request; the eleven newest paired with the eight basic ones) up to length %d, blind CONNECT x 16 behaviours (direct / through a downstream proxy; the downstream proxy answers 200, hangs up, or refuses with a 407), MITM with plaintext / TLS inside x CONNECT behaviours x inner behaviours; optional second concurrent connection (plain pass, or with behaviours / an intercepted tunnel of its own), optional later connection after all others have ended, pipelining (also of a request behind the hijacked one); %d scenarios over the spelling of the request (target form x Host header presence x protocol version, incl. requests that name no host and that only a request modifier makes routable); every schedule with <= %d deviations (one less for TLS scenarios; sequences of three exchanges: <= 1; thorough, the audit's scenarios and scenarios with a second concurrent connection: <= 2)", len(scen), nAdded, map[string]int{"quick": 2, "thorough": 3}[tier], nSpelled, map[string]int{"quick": 1, "thorough": 3}[tier])
	rep.Coverage["bounds"] = fmt.Sprint(rep.Coverage["bounds"]) + fmt.Sprintf("; %d scenarios in which the scenario owns the proxy's random source (pairwise different 8-byte draws differing in one byte, every position, low bits / high nibble)", nDraws)
	rep.Coverage["explanation"] = "each execution runs the real proxy.go/context.go over simnet under the gosim scheduler with recording modifiers; the clause that no context remains retrievable is judged through the public API (martian.NewContext on every request the modifiers saw)"
	rep.Assumptions = []string{"round trips go through a synchronous harness RoundTripper (which validates header fields like http.Transport)", "TLS inside the tunnel uses crypto/tls unmodified on simnet connections", "unsynchronised accesses (context/session id generation, context table) are covered by the auxiliary free-running -race pass (sampling)"}
	raceIters := "30"
	if tier == "thorough" {
		raceIters = "300"
	}
	rep.ReportRaces(lib.RacePass("c02", "racebodies", "c02", raceIters))
	rep.Finish()
}
