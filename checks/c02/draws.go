// Round 8: the random source is part of the scenario.
//
// "Context IDs are unique per exchange" and "the session is shared ... by no other" quantify over everything the
// proxy may be handed, and that includes what its random source returns: the other scenarios leave crypto/rand to
// the operating system, where any two draws differ in (almost) every byte, so an implementation that looks at a
// part of a draw only - its leading or trailing bytes, one nibble of each byte - never shows.  Here the scenario
// owns the source: crypto/rand.Reader is a package variable; for the duration of one execution it is a scripted
// reader that serves an enumerated sequence of 8-byte draws (as a byte stream, so it does not matter how many
// bytes a caller asks for at a time), and it is put back when the execution ends.  The engine runs one goroutine
// at a time, so which draw goes to which session / exchange is a function of the schedule alone.
//
// The family: all draws of an execution are pairwise DIFFERENT, but differ in one byte only - byte p, p = 0..7 - so
// that any two of them share a prefix of p bytes and a suffix of 7-p bytes (every common-prefix and common-suffix
// length 0..7 occurs), the differing byte differing in its low bits (step "lo": base^1, base^2, ...) or in its high
// nibble only (step "hi": base^0x10, base^0x20, ...), over a common byte value `base`.  Identical draws are not
// enumerated: a source that repeats itself may legitimately produce a repeated id.
//
// Oracle (from the statement, nothing about how ids are built): the ids of all exchanges of an execution - across
// connections and within one - are pairwise different, and so are the session ids of different connections.  An
// implementation is free not to draw at all (a counter) or to draw more often; the number of draws is not judged.
package main

import (
	"crypto/rand"
	"encoding/hex"
	"fmt"
	"io"
	"strings"
)

// the operating system's source, put back after every execution and at the start of every one (an execution the
// engine abandons half-way does not reach its end)
var osRandReader = rand.Reader

var (
	drawSteps = []string{"lo", "hi"}
	drawBases = []string{"a5", "00"}
)

// drawScript renders the Draws field of a scenario: "byte=<p>,step=<lo|hi>,base=<hex>".
func drawScript(p int, step, base string) string {
	return fmt.Sprintf("byte=%d,step=%s,base=%s", p, step, base)
}

func drawParts(script string) (p int, step string, base byte) {
	var b string
	for _, f := range strings.Split(script, ",") {
		kv := strings.SplitN(f, "=", 2)
		if len(kv) != 2 {
			panic("bad draw script " + script)
		}
		switch kv[0] {
		case "byte":
			fmt.Sscanf(kv[1], "%d", &p)
		case "step":
			step = kv[1]
		case "base":
			b = kv[1]
		}
	}
	raw, err := hex.DecodeString(b)
	if err != nil || len(raw) != 1 || p < 0 || p > 7 || (step != "lo" && step != "hi") {
		panic("bad draw script " + script)
	}
	return p, step, raw[0]
}

// drawDelta: the i-th of the 255 non-zero byte values, counted upwards ("lo": 1, 2, 3 ...: the draws differ in the
// low bits of the byte) or high nibble first ("hi": 0x10, 0x20 ... 0xf0, then the remaining values in order).
func drawDelta(step string, i int) byte {
	if i < 0 || i >= 255 {
		panic("c02: more than 255 draws from the scripted random source in one execution")
	}
	if step == "lo" {
		return byte(i + 1)
	}
	if i < 15 {
		return byte(i+1) << 4
	}
	i -= 15
	for v := 1; v < 256; v++ {
		if v&0x0f == 0 {
			continue
		}
		if i == 0 {
			return byte(v)
		}
		i--
	}
	panic("unreachable")
}

// drawValue is the i-th draw of a script: `base` in every byte, byte p = base ^ delta(i) with delta(i) != 0 and
// pairwise different. Any two draws differ in byte p and nowhere else.
func drawValue(script string, i int) [8]byte {
	p, step, base := drawParts(script)
	var v [8]byte
	for k := range v {
		v[k] = base
	}
	v[p] = base ^ drawDelta(step, i)
	return v
}

// drawClass is the part of a signature that names the class of random draws of a scenario.
func drawClass(script string) string {
	p, step, _ := drawParts(script)
	return fmt.Sprintf("distinct-draws,common-prefix-%d,common-suffix-%d,%s-bits", p, 7-p, step)
}

// scriptedRand is the random source of one execution.
type scriptedRand struct {
	script string
	next   int      // index of the next draw
	buf    []byte   // rest of the draw being served
	served []string // the draws handed out so far (hex)
}

func (s *scriptedRand) Read(p []byte) (int, error) {
	for i := range p {
		if len(s.buf) == 0 {
			v := drawValue(s.script, s.next)
			s.next++
			s.buf = v[:]
			s.served = append(s.served, hex.EncodeToString(v[:]))
		}
		p[i] = s.buf[0]
		s.buf = s.buf[1:]
	}
	return len(p), nil
}

// installRand makes the random source of the process the scenario's for one execution (nil: the operating system's).
func installRand(s *scriptedRand) {
	if s == nil {
		rand.Reader = osRandReader
		return
	}
	rand.Reader = io.Reader(s)
}

func init() {
	// the scripts hold what the family's description says: pairwise different, differing in byte p only
	for _, step := range drawSteps {
		for _, base := range drawBases {
			for p := 0; p < 8; p++ {
				sc := drawScript(p, step, base)
				seen := map[[8]byte]bool{}
				first := drawValue(sc, 0)
				for i := 0; i < 255; i++ {
					v := drawValue(sc, i)
					if seen[v] {
						panic("draw script " + sc + " repeats a value")
					}
					seen[v] = true
					for k := 0; k < 8; k++ {
						if k != p && v[k] != first[k] {
							panic("draw script " + sc + ": draws differ outside byte p")
						}
					}
				}
			}
		}
	}
}

// drawScenarios: every script x the shapes in which ids can meet - two concurrent connections with two exchanges
// each and a later third one (across connections, within one, across time), two intercepted tunnels at once (the
// CONNECT exchange and the exchange inside the tunnel share a session), a blind tunnel beside a plain connection,
// and one connection with three exchanges. TLS inside the tunnel is left out: crypto/tls draws from the same source.
func drawScenarios(tier string) []scenario {
	var out []scenario
	bases := drawBases[:1]
	if tier == "thorough" {
		bases = drawBases
	}
	for _, base := range bases {
		for _, step := range drawSteps {
			for p := 0; p < 8; p++ {
				d := drawScript(p, step, base)
				out = append(out,
					scenario{Mode: "plain", Beh: []string{"pass", "mut"}, Second: true, Beh2: []string{"pass", "pass"}, After: true, Draws: d},
					scenario{Mode: "mitm-plain", Beh: []string{"pass", "mut"}, Second: true, Mode2: "mitm-plain", Beh2: []string{"pass", "pass"}, Draws: d},
					scenario{Mode: "blind", Beh: []string{"pass"}, Second: true, After: true, Draws: d})
				if tier == "thorough" {
					out = append(out,
						scenario{Mode: "plain", Beh: []string{"pass", "reqerr", "skip"}, Draws: d},
						scenario{Mode: "plain", Beh: []string{"pass", "pass", "pass"}, Pipe: true, Second: true, Draws: d},
						scenario{Mode: "mitm-plain", Beh: []string{"pass", "pass", "mut"}, Second: true, After: true, Draws: d})
				}
			}
		}
	}
	return out
}
