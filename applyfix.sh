#!/bin/bash
# usage: applyfix.sh <diff> "<commit message>" <pkg>...   — applies a proposed fix to /repo, runs the packages' tests, commits (or reverts)
set -o pipefail
export GOFLAGS=-mod=mod GOPROXY=off GOSUMDB=off GOTOOLCHAIN=local
diff="$1"; msg="$2"; shift 2
cd /repo || exit 1
git apply --check "$diff" || { echo "DOES NOT APPLY: $diff"; exit 1; }
git apply "$diff" || exit 1
if ! go build ./... ; then echo "BUILD FAILED"; git checkout -- .; exit 1; fi
if ! go test -vet=off -count=1 -timeout 600s "$@" 2>&1 | grep -E "^(ok|FAIL|---|panic)" ; then echo "no test output?"; fi
if go test -vet=off -count=1 -timeout 600s "$@" >/dev/null 2>&1; then
  git commit -qam "$msg" && echo "COMMITTED $(git log --format=%h -1) $diff"
else
  echo "TESTS FAILED, reverting $diff"; git checkout -- .; exit 1
fi
