#!/bin/bash
# usage: applyfix.sh <diff> "<commit message>" <pkg>...   — applies a proposed fix to /repo, runs the packages' tests, commits (or reverts)
export GOFLAGS=-mod=mod GOPROXY=off GOSUMDB=off GOTOOLCHAIN=local
diff="$1"; msg="$2"; shift 2
cd /repo || exit 1
if [ -n "$(git status --porcelain)" ]; then echo "/repo is not clean (stray files would be committed): $(git status --porcelain | head -3)"; exit 1; fi
git apply --check "$diff" || { echo "DOES NOT APPLY: $diff"; exit 1; }
git apply "$diff" || exit 1
if ! go build ./... ; then echo "BUILD FAILED"; git checkout -- .; exit 1; fi
ok=0
for attempt in 1 2; do
  go test -vet=off -count=1 -timeout 600s "$@" > /tmp/applyfix.out 2>&1; rc=$?
  grep -E "^(ok|FAIL|---|panic)" /tmp/applyfix.out
  if [ $rc -eq 0 ]; then ok=1; break; fi
  echo "attempt $attempt failed"
done
if [ $ok -eq 1 ]; then
  git add -A && git commit -qm "$msg" && echo "COMMITTED $(git log --format=%h -1) $diff"
else
  echo "TESTS FAILED, reverting $diff"; grep -B2 -A12 -- "--- FAIL" /tmp/applyfix.out | head -60; git checkout -- .; exit 1
fi
