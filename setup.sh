#!/bin/bash
# Builds the framework from files on disk (offline) and warms the Go build cache.
export GOFLAGS=-mod=mod GOPROXY=off GOSUMDB=off GOTOOLCHAIN=local
cd "$(dirname "$0")" || exit 1
mkdir -p .build/bin evidence replays
(cd vrewrite && go build -o ../.build/bin/vrewrite .) || exit 1
# warm: plain build of martian, then one rewritten build so later checks only recompile what changed
(cd /repo && go build ./... ) || exit 1
.build/bin/vrewrite -repo /repo -rt "$PWD/rt" -hooks "$PWD/hooks" -out "$PWD/.build/warm" >/dev/null || exit 1
for d in checks/*/; do
  id=$(basename "$d")
  grep -qs "^package main" "$d"/*.go || continue   # helper packages are compiled with the checks that import them
  mode=$(cat "$d/MODE" 2>/dev/null || echo plain)
  case "$mode" in
    gosim) go build -tags verif -overlay .build/warm/overlay.json -o /dev/null "./$d" || echo "warning: $id does not build" ;;
    hooks) .build/bin/vrewrite -norewrite -repo /repo -rt "$PWD/rt" -hooks "$PWD/hooks" -out "$PWD/.build/warmh" >/dev/null && go build -tags verif -overlay .build/warmh/overlay.json -o /dev/null "./$d" || echo "warning: $id does not build" ;;
    *) go build -o /dev/null "./$d" || echo "warning: $id does not build" ;;
  esac
done
echo setup ok
