//go:build verif

package h2

// NewProcessorsForVerif builds the pair of traffic receiving endpoints handed to a StreamProcessorFactory
// from caller-supplied sinks. Verification hook (add-only, compiled only with -tags verif): the fields of
// Processors are unexported, so a harness outside this package cannot construct one otherwise.
func NewProcessorsForVerif(cToS, sToC Processor) *Processors {
	return &Processors{cToS: cToS, sToC: sToC}
}
