//go:build verif

package martian

// VerifLiveContexts returns the number of live request-to-context associations (leak check at quiescence).
func VerifLiveContexts() int {
	ctxmu.RLock()
	defer ctxmu.RUnlock()
	return len(ctxs)
}
