#!/bin/bash
# usage: seedcheck.sh <ID> <k> <pkgdir-for-demo|-> <go test -run regex|-> [extra check ids...]
# SEEDDEMOFLAGS (e.g. -race) is passed to the go test run of the demonstration.
# Confirms a seeded change (written by a sub-agent into /tmp/mut/<ID>-out/m<k>.*) in a fresh scratch worktree:
#   clean tree + demonstration passes, changed tree + demonstration fails, changed tree + full suite passes;
# then runs ./check <ID> quick (plus extra ids) against the changed tree and stores everything in /verif/seeded/<ID>-m<k>/.
export GOFLAGS=-mod=mod GOPROXY=off GOSUMDB=off GOTOOLCHAIN=local
ID="$1"; K="$2"; PKG="$3"; RUN="$4"; shift 4
SRC=${SEEDSRC:-/tmp/mut}/$ID-out
TAG=${SEEDTAG:-m}
WT=/tmp/seedwt-$ID-$TAG$K
OUT=/verif/seeded/$ID-$TAG$K
rm -rf "$OUT"; mkdir -p "$OUT"
cd / && git -C /repo worktree remove --force "$WT" 2>/dev/null
git -C /repo worktree add --detach "$WT" -q || exit 2
cp "$SRC/m$K.diff" "$OUT/patch.diff"
res() { echo "$1" | tee -a "$OUT/verification.log"; }
demo() { # run the demonstration in the worktree; echo PASS/FAIL
  if [ -f "$SRC/m${K}_demo_test.go" ] && [ "$PKG" != "-" ]; then
    cp "$SRC/m${K}_demo_test.go" "$WT/$PKG/zz_seed_demo_test.go"
    (cd "$WT/$PKG" && timeout 900 go test $SEEDDEMOFLAGS -vet=off -count=1 -run "$RUN" . > /tmp/seeddemo-$ID-$TAG$K.out 2>&1); rc=$?
    rm -f "$WT/$PKG/zz_seed_demo_test.go"
  elif [ -d "$SRC/m${K}_demo" ]; then
    rm -rf "$WT/zz_seed_demo"; cp -r "$SRC/m${K}_demo" "$WT/zz_seed_demo"
    (cd "$WT" && timeout 600 go run ./zz_seed_demo > /tmp/seeddemo-$ID-$TAG$K.out 2>&1); rc=$?
    rm -rf "$WT/zz_seed_demo"
  else
    echo "no demo found" > /tmp/seeddemo-$ID-$TAG$K.out; rc=99
  fi
  tail -5 /tmp/seeddemo-$ID-$TAG$K.out >> "$OUT/verification.log"
  [ $rc -eq 0 ] && echo PASS || echo FAIL
}
[ -f "$SRC/m${K}_demo_test.go" ] && cp "$SRC/m${K}_demo_test.go" "$OUT/demo_test.go"
[ -d "$SRC/m${K}_demo" ] && cp -r "$SRC/m${K}_demo" "$OUT/demo"
res "== clean tree + demo"; A=$(demo); res "clean: $A"
(cd "$WT" && git apply "$OUT/patch.diff") || { res "PATCH DOES NOT APPLY"; exit 1; }
(cd "$WT" && go build ./...) || { res "CHANGED TREE DOES NOT BUILD"; exit 1; }
res "== changed tree + demo"; B=$(demo); res "changed: $B"
res "== changed tree + full suite"
S=FAIL
(cd "$WT" && go test -vet=off -count=1 -timeout 25m ./... > /tmp/seedsuite-$ID-$TAG$K.out 2>&1) && S=PASS
if [ $S = FAIL ]; then
  # timing-sensitive tests (trafficshape listeners, fixed ports) fail on a loaded machine: re-run only the
  # packages that failed, alone, up to 3 times each; the suite counts as green if every one of them passes
  S=PASS
  for pkg in $(grep -E "^FAIL\s+github.com" /tmp/seedsuite-$ID-$TAG$K.out | awk '{print $2}' | sort -u); do
    ok=0
    for attempt in 1 2 3; do
      (cd "$WT" && go test -vet=off -count=1 -p 1 -timeout 25m "$pkg" >> /tmp/seedsuite-$ID-$TAG$K.retry 2>&1) && { ok=1; break; }
    done
    echo "retry $pkg: ok=$ok" >> "$OUT/verification.log"
    [ $ok = 1 ] || S=FAIL
  done
  grep -qE "^FAIL\s+github.com" /tmp/seedsuite-$ID-$TAG$K.out || S=FAIL
fi
grep -E "^(FAIL|---)" /tmp/seedsuite-$ID-$TAG$K.out | head -5 >> "$OUT/verification.log"
res "suite: $S"
DET=""
for cid in "$ID" "$@"; do
  out=$(cd /verif && VERIF_REPO="$WT" ./check "$cid" quick 2>&1)
  sigs=$(echo "$out" | grep -E "^  sig=" | sed 's/ count=.*//; s/^  sig=//' | tr '\n' ' ')
  last=$(echo "$out" | tail -1)
  res "check $cid: $last"; res "  signatures: $sigs"
  if echo "$out" | grep -q "^VIOLATION"; then DET="$DET $cid"; fi
  rm -rf /verif/.build/$(echo $cid | tr A-Z a-z)-alt-$(echo "$WT" | tr / _)
done
python3 - "$ID" "$K" "$A" "$B" "$S" "$DET" "$SRC" "$TAG" <<'PY'
import json,sys,os
ID,K,A,B,S,DET,SRC,TAG=sys.argv[1:9]
src='%s/m%s.json'%(SRC,K)
try: meta=json.load(open(src))
except Exception as e: meta={"note":"agent meta unreadable: %s"%e}
meta.update({"seed_id":"%s-%s%s"%(ID,TAG,K),"confirmed":{"clean_tree_demo":A,"changed_tree_demo":B,"changed_tree_full_suite":S},
  "valid": A=="PASS" and B=="FAIL" and S=="PASS","detected_by":DET.split(),"ran":"/verif/seedcheck.sh (scratch worktree of /repo HEAD; demo on clean and changed tree; go test -vet=off -count=1 ./...; VERIF_REPO=<worktree> ./check <ID> quick)"})
json.dump(meta,open('/verif/seeded/%s-%s%s/meta.json'%(ID,TAG,K),'w'),indent=1)
print("RESULT %s-%s%s valid=%s detected_by=%s"%(ID,TAG,K,meta["valid"],meta["detected_by"]))
PY
cd / && git -C /repo worktree remove --force "$WT"
