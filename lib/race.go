package lib

import (
	"bytes"
	"encoding/json"
	"fmt"
	"os"
	"os/exec"
	"path/filepath"
	"sort"
	"strings"
	"syscall"
	"time"
)

// Auxiliary free-running race pass. A cooperative scheduler cannot see unsynchronised accesses (its hand-offs
// are happens-before edges), so checks whose property speaks about concurrent use additionally run their thread
// bodies on the UNREWRITTEN tree under the race detector. This is sampling of real schedules, reported as such;
// the deciding step of every check remains the exhaustive exploration.

// RaceReport is one data race reported by the detector.
type RaceReport struct {
	Sig      string
	Scenario string
	Funcs    [2]string
	Text     string
	Martian  bool // at least one of the two accesses has a frame in martian code
}

// RaceResult summarises a race pass.
type RaceResult struct {
	Reports    []RaceReport
	Iterations int64
	Scenarios  int64
	Err        string
	Seconds    float64
}

// BuildDir is the directory ./check built the running binary into.
func BuildDir(id string) string {
	if exe, err := os.Executable(); err == nil && strings.Contains(exe, string(filepath.Separator)+".build"+string(filepath.Separator)) {
		return filepath.Dir(exe)
	}
	return filepath.Join(Root, ".build", id)
}

// RacePass builds ./checks/<pkg> with -race against the same martian tree as the running check and runs it
// with args. The program prints "RACE scenario <name>" lines to stderr before each scenario and a JSON summary
// {"Scenarios":n,"Iterations":m} on stdout.
func RacePass(id, pkg string, args ...string) RaceResult {
	start := time.Now()
	var rr RaceResult
	dir := BuildDir(id)
	os.MkdirAll(dir, 0o755)
	bin := filepath.Join(dir, "race-"+filepath.Base(pkg))
	bargs := []string{"build", "-race"}
	if os.Getenv("VERIF_ALT_REPO") != "" {
		bargs = append(bargs, "-modfile="+filepath.Join(dir, "alt.mod"))
	}
	bargs = append(bargs, "-o", bin, "./checks/"+pkg)
	cmd := exec.Command("go", bargs...)
	cmd.Dir = Root
	cmd.Env = append(os.Environ(), "GOFLAGS=-mod=mod", "GOPROXY=off", "GOSUMDB=off", "GOTOOLCHAIN=local")
	if b, err := cmd.CombinedOutput(); err != nil {
		rr.Err = fmt.Sprintf("go build -race failed: %v\n%s", err, b)
		return rr
	}
	run := exec.Command(bin, args...)
	run.Env = append(os.Environ(), "GORACE=halt_on_error=0 exitcode=0 history_size=2")
	var stdout, stderr bytes.Buffer
	run.Stdout = &stdout
	run.Stderr = &stderr
	// hang guard: a free-running body that deadlocks (the exploration under the controlled scheduler is what decides
	// deadlocks; this pass only looks for data races) must not hang the check
	limit := 10 * time.Minute
	err := run.Start()
	if err == nil {
		done := make(chan error, 1)
		go func() { done <- run.Wait() }()
		select {
		case err = <-done:
		case <-time.After(limit):
			run.Process.Signal(syscall.SIGQUIT) // goroutine dump to stderr
			select {
			case <-done:
			case <-time.After(10 * time.Second):
				run.Process.Kill()
				<-done
			}
			s := stderr.String()
			if i := strings.Index(s, "SIGQUIT"); i >= 0 {
				s = s[i:]
			}
			if len(s) > 3000 {
				s = s[:3000]
			}
			rr.Err = fmt.Sprintf("race pass binary did not finish within %v (bodies parked: possible deadlock of the free-running code)\n%s", limit, s)
			return rr
		}
	}
	if err != nil {
		s := stderr.String()
		if len(s) > 4000 {
			s = s[len(s)-4000:]
		}
		rr.Err = fmt.Sprintf("race pass binary failed: %v\n%s", err, s)
		return rr
	}
	var sum struct{ Scenarios, Iterations int64 }
	if err := json.Unmarshal(bytes.TrimSpace(stdout.Bytes()), &sum); err != nil {
		rr.Err = fmt.Sprintf("race pass: bad summary: %v", err)
		return rr
	}
	rr.Scenarios, rr.Iterations = sum.Scenarios, sum.Iterations
	rr.Reports = ParseRace(stderr.String())
	rr.Seconds = time.Since(start).Seconds()
	return rr
}

const martianMod = "github.com/google/martian/v3"

// ParseRace splits the race detector's output into reports and names, for each of the two conflicting
// accesses, the innermost frame that lies in martian code.
func ParseRace(stderr string) []RaceReport {
	var out []RaceReport
	scenario := ""
	var block []string
	in := false
	flush := func() {
		if len(block) == 0 {
			return
		}
		text := strings.Join(block, "\n")
		block = nil
		if !strings.Contains(text, "WARNING: DATA RACE") {
			return
		}
		var funcs []string
		martian := false
		for _, sec := range strings.Split(text, "\n\n") {
			lines := strings.Split(strings.TrimLeft(sec, "\n"), "\n")
			hdr := -1
			for i, l := range lines {
				if strings.Contains(l, " by goroutine ") || strings.Contains(l, " by main goroutine") {
					hdr = i
					break
				}
			}
			if hdr < 0 {
				continue
			}
			top, inMartian := "", ""
			for _, l := range lines[hdr+1:] {
				if !strings.HasPrefix(l, "  ") || strings.HasPrefix(l, "      ") {
					continue
				}
				fn := strings.TrimSpace(l)
				if i := strings.LastIndex(fn, "("); i > 0 {
					fn = fn[:i]
				}
				if top == "" {
					top = fn
				}
				if inMartian == "" && strings.HasPrefix(fn, martianMod) {
					inMartian = fn
				}
			}
			name := top
			if inMartian != "" {
				martian = true
				name = strings.TrimPrefix(inMartian, martianMod)
				if strings.HasPrefix(name, "/") {
					name = name[1:]
				} else {
					name = "martian" + name
				}
			}
			funcs = append(funcs, name)
			if len(funcs) == 2 {
				break
			}
		}
		for len(funcs) < 2 {
			funcs = append(funcs, "?")
		}
		sort.Strings(funcs)
		out = append(out, RaceReport{Sig: "race:" + funcs[0] + "|" + funcs[1], Scenario: scenario, Funcs: [2]string{funcs[0], funcs[1]}, Text: text, Martian: martian})
	}
	for _, l := range strings.Split(stderr, "\n") {
		if strings.HasPrefix(l, "RACEBODY VIOLATION ") {
			// an assertion of the free-running body itself (e.g. duplicate ids under real parallelism)
			rest := strings.TrimPrefix(l, "RACEBODY VIOLATION ")
			sig := rest
			if i := strings.IndexByte(rest, ' '); i > 0 {
				sig = rest[:i]
			}
			dup := false
			for _, o := range out {
				if o.Sig == "parallel:"+sig {
					dup = true
				}
			}
			if !dup {
				out = append(out, RaceReport{Sig: "parallel:" + sig, Scenario: scenario, Funcs: [2]string{"assertion", "assertion"}, Text: rest, Martian: true})
			}
			continue
		}
		if strings.HasPrefix(l, "RACE scenario ") {
			scenario = strings.TrimPrefix(l, "RACE scenario ")
			continue
		}
		if strings.HasPrefix(l, "==================") {
			if in {
				flush()
			}
			in = !in
			continue
		}
		if in {
			block = append(block, l)
		}
	}
	flush()
	return out
}

// ReportRaces adds the race pass result to a report (violations for races in martian code, coverage keys).
func (r *Report) ReportRaces(rr RaceResult) {
	sigs := map[string]int{}
	if rr.Err != "" {
		fmt.Fprintln(os.Stderr, r.ID+" race pass did not run:", rr.Err)
		r.Incomplete = "race pass did not run: " + strings.SplitN(rr.Err, "\n", 2)[0]
	}
	for _, x := range rr.Reports {
		if !x.Martian {
			continue
		}
		sigs[x.Sig]++
		t := x.Text
		if len(t) > 2500 {
			t = t[:2500]
		}
		r.Violate(x.Sig, fmt.Sprintf("data race between %s and %s in scenario %s (free-running -race build of the unrewritten tree):\n%s", x.Funcs[0], x.Funcs[1], x.Scenario, t),
			map[string]interface{}{"part": "race", "scenario": x.Scenario, "report": x.Text})
	}
	r.Coverage["race_pass"] = map[string]interface{}{"scenarios": rr.Scenarios, "iterations": rr.Iterations, "reports": len(rr.Reports), "signatures": sigs, "seconds": rr.Seconds, "error": rr.Err}
}
