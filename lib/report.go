// Package lib is the shared plumbing of the martian checks: evidence files, known-findings matching,
// VIOLATION / KNOWN-FINDING lines, replay artefacts, process sharding and small enumeration helpers.
package lib

import (
	"bufio"
	"crypto/sha1"
	"encoding/hex"
	"encoding/json"
	"fmt"
	"os"
	"path/filepath"
	"sort"
	"strconv"
	"strings"
	"sync"
	"time"
)

// Root is the verification directory.
var Root = func() string {
	if r := os.Getenv("VERIF_ROOT"); r != "" {
		return r
	}
	return "/verif"
}()

// Violation is one property violation found by a check.
type Violation struct {
	Sig    string      `json:"sig"`    // stable signature: scenario class + symptom kind (what known findings match on)
	Desc   string      `json:"desc"`   // human readable description of the concrete failing case
	Replay interface{} `json:"replay"` // everything needed to re-run the failing case
}

// Report accumulates what a check run covered and found.
type Report struct {
	ID          string
	Tier        string
	Seed        int
	Level       string // exploration | fault_enumeration | model_checking
	Coverage    map[string]interface{}
	Assumptions []string

	mu         sync.Mutex
	start      time.Time
	violations map[string][]Violation
	order      []string
	samples    []interface{}
	counters   map[string]int64
	Incomplete string // non-empty: an internal cap was hit (exhaustive:false), reason
}

// Tier returns the tier requested on the command line (argv[1]) or by VERIF_TIER.
func Tier() string {
	t := "quick"
	for _, a := range os.Args[1:] {
		if a == "quick" || a == "thorough" {
			t = a
		}
	}
	if e := os.Getenv("VERIF_TIER"); e == "quick" || e == "thorough" {
		t = e
	}
	return t
}

// Seed returns VERIF_SEED (0 if unset). Nothing in the checks is random; the seed only permutes work order.
func Seed() int {
	n, _ := strconv.Atoi(os.Getenv("VERIF_SEED"))
	return n
}

// NewReport starts a report for property id.
func NewReport(id, level string) *Report {
	return &Report{ID: id, Tier: Tier(), Seed: Seed(), Level: level, Coverage: map[string]interface{}{}, start: time.Now(),
		violations: map[string][]Violation{}, counters: map[string]int64{}}
}

// Violate records a violation.
func (r *Report) Violate(sig, desc string, replay interface{}) {
	r.mu.Lock()
	defer r.mu.Unlock()
	if _, ok := r.violations[sig]; !ok {
		r.order = append(r.order, sig)
	}
	if len(r.violations[sig]) < 3 {
		r.violations[sig] = append(r.violations[sig], Violation{Sig: sig, Desc: desc, Replay: replay})
	} else {
		r.violations[sig] = append(r.violations[sig], Violation{Sig: sig})
	}
}

// Count adds n to a named coverage counter.
func (r *Report) Count(name string, n int64) {
	r.mu.Lock()
	r.counters[name] += n
	r.mu.Unlock()
}

// Counter reads a counter.
func (r *Report) Counter(name string) int64 {
	r.mu.Lock()
	defer r.mu.Unlock()
	return r.counters[name]
}

// Sample keeps up to max samples of explored cases for the evidence file.
func (r *Report) Sample(max int, s interface{}) {
	r.mu.Lock()
	if len(r.samples) < max {
		r.samples = append(r.samples, s)
	}
	r.mu.Unlock()
}

// Finding is a line of known_findings.txt.
type Finding struct {
	Kind     string // finding | fixed
	Property string
	Sig      string
	Text     string
}

// LoadFindings parses /verif/known_findings.txt.
func LoadFindings() []Finding {
	f, err := os.Open(filepath.Join(Root, "known_findings.txt"))
	if err != nil {
		return nil
	}
	defer f.Close()
	var out []Finding
	sc := bufio.NewScanner(f)
	sc.Buffer(make([]byte, 1<<20), 1<<20)
	for sc.Scan() {
		line := strings.TrimSpace(sc.Text())
		if line == "" || strings.HasPrefix(line, "#") {
			continue
		}
		var fd Finding
		switch {
		case strings.HasPrefix(line, "finding:"):
			fd.Kind = "finding"
			line = strings.TrimSpace(strings.TrimPrefix(line, "finding:"))
		case strings.HasPrefix(line, "fixed:"):
			fd.Kind = "fixed"
			line = strings.TrimSpace(strings.TrimPrefix(line, "fixed:"))
		default:
			continue
		}
		fields := strings.Fields(line)
		rest := []string{}
		for _, w := range fields {
			switch {
			case strings.HasPrefix(w, "property=") && fd.Property == "":
				fd.Property = strings.TrimPrefix(w, "property=")
			case strings.HasPrefix(w, "sig=") && fd.Sig == "":
				fd.Sig = strings.TrimPrefix(w, "sig=")
			default:
				rest = append(rest, w)
			}
		}
		fd.Text = strings.Join(rest, " ")
		out = append(out, fd)
	}
	return out
}

func sigMatch(pattern, sig string) bool {
	if strings.HasSuffix(pattern, "*") {
		return strings.HasPrefix(sig, strings.TrimSuffix(pattern, "*"))
	}
	return pattern == sig
}

// Finish writes the evidence file and replays, prints KNOWN-FINDING / VIOLATION lines and exits with the
// status the interface demands (0 held, 1 violation).
func (r *Report) Finish() {
	os.Exit(r.FinishNoExit())
}

// FinishNoExit is Finish without the exit.
func (r *Report) FinishNoExit() int {
	r.mu.Lock()
	defer r.mu.Unlock()
	findings := LoadFindings()
	known := map[string]*Finding{}
	var unknown []string
	for _, sig := range r.order {
		matched := false
		for i := range findings {
			f := &findings[i]
			if f.Kind == "finding" && f.Property == r.ID && sigMatch(f.Sig, sig) {
				known[f.Sig] = f
				matched = true
				break
			}
		}
		if !matched {
			unknown = append(unknown, sig)
		}
	}
	var ksigs []string
	for s := range known {
		ksigs = append(ksigs, s)
	}
	sort.Strings(ksigs)
	for _, s := range ksigs {
		fmt.Printf("KNOWN-FINDING: property=%s %s [sig=%s]\n", r.ID, known[s].Text, s)
	}
	// runs against a scratch copy of martian (VERIF_REPO=..., development aid) must not overwrite the real
	// evidence and replays
	outRoot := Root
	if os.Getenv("VERIF_ALT_REPO") != "" {
		outRoot = filepath.Join(Root, ".build", "alt-out")
	}
	os.MkdirAll(filepath.Join(outRoot, "replays"), 0o755)
	for _, sig := range unknown {
		v := r.violations[sig]
		h := sha1.Sum([]byte(sig))
		path := filepath.Join(outRoot, "replays", fmt.Sprintf("%s-%s.json", r.ID, hex.EncodeToString(h[:5])))
		b, _ := json.MarshalIndent(map[string]interface{}{"property": r.ID, "sig": sig, "count": len(v), "first": v[0]}, "", " ")
		os.WriteFile(path, b, 0o644)
		fmt.Printf("VIOLATION property=%s replay=%s\n", r.ID, path)
		fmt.Printf("  sig=%s count=%d\n  %s\n", sig, len(v), v[0].Desc)
	}
	cov := r.Coverage
	for k, v := range r.counters {
		if _, ok := cov[k]; !ok {
			cov[k] = v
		}
	}
	if _, ok := cov["samples"]; !ok {
		if len(r.samples) == 0 {
			r.samples = append(r.samples, "none recorded")
		}
		cov["samples"] = r.samples
	}
	if r.Incomplete != "" {
		cov["exhaustive"] = false
		cov["incomplete_reason"] = r.Incomplete
	}
	cov["known_findings_matched"] = ksigs
	cov["violation_signatures"] = unknown
	ev := map[string]interface{}{
		"property_id": r.ID,
		"tier":        r.Tier,
		"seed":        r.Seed,
		"level":       r.Level,
		"coverage":    cov,
		"assumptions": r.Assumptions,
		"wall_s":      time.Since(r.start).Seconds(),
		"violations":  len(unknown),
	}
	if ev["assumptions"] == nil {
		ev["assumptions"] = []string{}
	}
	os.MkdirAll(filepath.Join(outRoot, "evidence"), 0o755)
	b, _ := json.MarshalIndent(ev, "", " ")
	if err := os.WriteFile(filepath.Join(outRoot, "evidence", r.ID+".json"), b, 0o644); err != nil {
		fmt.Fprintf(os.Stderr, "cannot write evidence: %v\n", err)
		return 2
	}
	fmt.Printf("%s %s: %d violation signature(s), %d known finding(s), %.1fs\n", r.ID, r.Tier, len(unknown), len(ksigs), time.Since(r.start).Seconds())
	if len(unknown) > 0 {
		return 1
	}
	return 0
}
