package lib

import (
	"os"
	"os/exec"
	"path/filepath"
	"runtime"
	"strconv"
	"strings"
	"sync"
	"time"
)

// Cuts calls f with every set of cut points (strictly increasing positions in 1..n-1) of size <= maxCuts
// (maxCuts < 0: all 2^(n-1) sets). f must not retain the slice.
func Cuts(n, maxCuts int, f func(cuts []int)) {
	var cur []int
	var rec func(from int)
	rec = func(from int) {
		f(cur)
		if maxCuts >= 0 && len(cur) >= maxCuts {
			return
		}
		for p := from; p < n; p++ {
			cur = append(cur, p)
			rec(p + 1)
			cur = cur[:len(cur)-1]
		}
	}
	rec(1)
}

// Split cuts b at the given positions.
func Split(b []byte, cuts []int) [][]byte {
	var out [][]byte
	prev := 0
	for _, c := range cuts {
		out = append(out, b[prev:c])
		prev = c
	}
	return append(out, b[prev:])
}

// Sequences calls f with every sequence over 0..k-1 of length 0..maxLen (shortest first within a prefix order).
func Sequences(k, maxLen int, f func(seq []int)) {
	for l := 0; l <= maxLen; l++ {
		seq := make([]int, l)
		var rec func(i int)
		rec = func(i int) {
			if i == l {
				f(seq)
				return
			}
			for v := 0; v < k; v++ {
				seq[i] = v
				rec(i + 1)
			}
		}
		rec(0)
	}
}

// Product calls f with every tuple of the cartesian product of 0..dims[i]-1.
func Product(dims []int, f func(idx []int)) {
	idx := make([]int, len(dims))
	for _, d := range dims {
		if d == 0 {
			return
		}
	}
	for {
		f(idx)
		i := len(idx) - 1
		for i >= 0 {
			idx[i]++
			if idx[i] < dims[i] {
				break
			}
			idx[i] = 0
			i--
		}
		if i < 0 {
			return
		}
	}
}

// Parallel runs f(i) for i in 0..n-1 on all cores.
func Parallel(n int, f func(i int)) {
	w := runtime.NumCPU()
	if w > n {
		w = n
	}
	var wg sync.WaitGroup
	next := make(chan int)
	for k := 0; k < w; k++ {
		wg.Add(1)
		go func() {
			defer wg.Done()
			for i := range next {
				f(i)
			}
		}()
	}
	for i := 0; i < n; i++ {
		next <- i
	}
	close(next)
	wg.Wait()
}

// ShardEnv returns (index, count) when the process is a shard worker, else (0, 0).
func ShardEnv() (int, int) {
	v := os.Getenv("VERIF_SHARD")
	if v == "" {
		return 0, 0
	}
	parts := strings.Split(v, "/")
	i, _ := strconv.Atoi(parts[0])
	n, _ := strconv.Atoi(parts[1])
	return i, n
}

// RunShards re-executes the current binary n times with VERIF_SHARD=i/n and VERIF_SHARD_OUT=<file>, in
// parallel, and returns the output files plus each worker's exit error and combined output.
func RunShards(n int, dir string) (files []string, errs []error, outs []string) {
	// one directory per run: concurrent runs of the same check (e.g. against a scratch tree) must not share files
	if olds, err := filepath.Glob(dir + "-*"); err == nil {
		for _, o := range olds {
			if fi, err := os.Stat(o); err == nil && time.Since(fi.ModTime()) > 2*time.Hour {
				os.RemoveAll(o)
			}
		}
	}
	dir = dir + "-" + strconv.Itoa(os.Getpid())
	os.RemoveAll(dir)
	os.MkdirAll(dir, 0o755)
	files = make([]string, n)
	errs = make([]error, n)
	outs = make([]string, n)
	var wg sync.WaitGroup
	for i := 0; i < n; i++ {
		wg.Add(1)
		go func(i int) {
			defer wg.Done()
			files[i] = dir + "/shard-" + strconv.Itoa(i) + ".json"
			os.Remove(files[i])
			cmd := exec.Command(os.Args[0], os.Args[1:]...)
			cmd.Env = append(os.Environ(), "VERIF_SHARD="+strconv.Itoa(i)+"/"+strconv.Itoa(n), "VERIF_SHARD_OUT="+files[i], "GOMAXPROCS=2")
			b, err := cmd.CombinedOutput()
			errs[i] = err
			outs[i] = string(b)
		}(i)
	}
	wg.Wait()
	return
}
