package vrt

import (
	"crypto/sha1"
	"encoding/hex"
	"fmt"
	"strings"
	"time"
)

// ExploreConfig bounds an exploration.
type ExploreConfig struct {
	Config
	Bound    int       // maximum total cost of non-default choices per execution; <0 = unbounded
	MaxExecs int       // cap on executions (0 = none); hitting it clears Stats.Exhaustive
	Deadline time.Time // wall-clock cap (zero = none); hitting it clears Stats.Exhaustive
	Recheck  int       // re-execute every Recheck-th schedule and require an identical log (0 = 200)
}

// Stats summarises an exploration.
type Stats struct {
	Execs          int
	Points         int64
	MaxPoints      int
	MaxChoices     int
	Outcomes       map[string]int // outcome kind -> executions
	DistinctLogs   int            // number of distinct (outcome, observation log) pairs
	HorizonHits    int
	BoundCompleted int  // highest deviation bound whose level was fully explored (-1 = none)
	Exhaustive     bool // the whole space under Bound was explored (no cap hit)
	Unbounded      bool
	Rechecks       int
	EngineError    string // nondeterminism or replay divergence: the run must not be trusted
	logs           map[string]bool
}

type node struct {
	base []int32
	n    int
	alt  int32
}

func (n node) prefix() []int {
	p := make([]int, n.n+1)
	for i := 0; i < n.n; i++ {
		p[i] = int(n.base[i])
	}
	p[n.n] = int(n.alt)
	return p
}

// Fingerprint hashes what an execution observed.
func (r *Result) Fingerprint() string {
	h := sha1.New()
	fmt.Fprintf(h, "%s\x00%s\x00", r.Outcome, firstLine(r.Panic))
	for _, l := range r.Log {
		h.Write([]byte(l))
		h.Write([]byte{0})
	}
	return hex.EncodeToString(h.Sum(nil)[:8])
}

func firstLine(s string) string {
	if i := strings.IndexByte(s, '\n'); i >= 0 {
		return s[:i]
	}
	return s
}

// ChoiceSeq returns the full choice sequence of an execution (usable as a replay prefix).
func (r *Result) ChoiceSeq() []int {
	out := make([]int, len(r.Choices))
	for i, c := range r.Choices {
		out[i] = c.C
	}
	return out
}

// Explore enumerates every execution of body whose non-default choices cost at most cfg.Bound, level by
// level (all executions of cost 0, then 1, ...). visit is called for every execution; returning false
// stops the exploration.
func Explore(cfg ExploreConfig, body func(), visit func(prefix []int, r *Result) bool) Stats {
	st := Stats{Outcomes: map[string]int{}, logs: map[string]bool{}, BoundCompleted: -1, Unbounded: cfg.Bound < 0}
	if cfg.Recheck == 0 {
		cfg.Recheck = 200
	}
	levels := map[int][]node{0: {{alt: -1}}}
	capped := false
	stop := false
	for level := 0; !stop; level++ {
		if cfg.Bound >= 0 && level > cfg.Bound {
			break
		}
		stack := levels[level]
		delete(levels, level)
		if len(stack) == 0 {
			// nothing at this level; any deeper levels?
			more := false
			for l := range levels {
				if l > level {
					more = true
				}
			}
			if !more {
				st.BoundCompleted = level
				if cfg.Bound >= 0 {
					st.BoundCompleted = cfg.Bound
				}
				break
			}
			st.BoundCompleted = level
			continue
		}
		for len(stack) > 0 {
			if (cfg.MaxExecs > 0 && st.Execs >= cfg.MaxExecs) || (!cfg.Deadline.IsZero() && time.Now().After(cfg.Deadline)) {
				capped = true
				stop = true
				break
			}
			nd := stack[len(stack)-1]
			stack = stack[:len(stack)-1]
			var prefix []int
			if nd.alt >= 0 {
				prefix = nd.prefix()
			}
			r := Run(cfg.Config, prefix, body)
			st.Execs++
			st.Points += int64(r.Points)
			if r.Points > st.MaxPoints {
				st.MaxPoints = r.Points
			}
			if len(r.Choices) > st.MaxChoices {
				st.MaxChoices = len(r.Choices)
			}
			st.Outcomes[r.Outcome]++
			if r.Outcome == "horizon" {
				st.HorizonHits++
			}
			if r.Outcome == "divergence" {
				st.EngineError = "replay divergence: " + r.Panic
				visit(prefix, r)
				return st
			}
			fp := r.Fingerprint()
			if !st.logs[fp] {
				st.logs[fp] = true
				st.DistinctLogs++
			}
			if st.Execs%cfg.Recheck == 1 {
				r2 := Run(cfg.Config, r.ChoiceSeq(), body)
				st.Rechecks++
				if r2.Fingerprint() != fp {
					st.EngineError = fmt.Sprintf("nondeterminism: schedule %v gave %s then %s\nfirst: %v\nsecond: %v", r.ChoiceSeq(), fp, r2.Fingerprint(), r.Log, r2.Log)
					return st
				}
			}
			if !visit(prefix, r) {
				stop = true
				capped = true
				break
			}
			// children
			base := make([]int32, len(r.Choices))
			for i, c := range r.Choices {
				base[i] = int32(c.C)
			}
			for i := len(r.Choices) - 1; i >= len(prefix); i-- {
				c := r.Choices[i]
				for alt := c.N - 1; alt >= 1; alt-- {
					child := node{base: base, n: i, alt: int32(alt)}
					if c.Cost == 0 {
						stack = append(stack, child)
					} else if cfg.Bound < 0 || level+c.Cost <= cfg.Bound {
						if cfg.Bound < 0 {
							// unbounded: plain DFS, everything on one stack
							stack = append(stack, child)
						} else {
							levels[level+c.Cost] = append(levels[level+c.Cost], child)
						}
					}
				}
			}
		}
		if !stop {
			st.BoundCompleted = level
		}
	}
	if cfg.Bound < 0 && !capped {
		st.BoundCompleted = -1
	}
	st.Exhaustive = !capped && st.EngineError == ""
	return st
}

// Confirm re-executes the schedule of r n more times and requires the identical observation fingerprint
// each time: a violation is only believed if the same schedule fails every time.
func Confirm(cfg Config, r *Result, body func(), n int) error {
	fp := r.Fingerprint()
	seq := r.ChoiceSeq()
	for i := 0; i < n; i++ {
		r2 := Run(cfg, seq, body)
		if r2.Fingerprint() != fp {
			return fmt.Errorf("nondeterminism while confirming a violation: schedule %v gave %s then %s\nfirst: %v\nagain: %v", seq, fp, r2.Fingerprint(), r.Log, r2.Log)
		}
	}
	return nil
}
