package vrt

// Scheduler-state implementations of the sync primitives martian uses. No real lock is inside: the
// baton serialises all accesses. Outside an execution (package init, native use) they degrade to
// single-threaded bookkeeping.

// Mutex mirrors sync.Mutex.
type Mutex struct {
	locked bool
}

// Lock is a scheduling point; enabled when the mutex is free.
func (m *Mutex) Lock() {
	Block("Mutex.Lock", func() bool { return !m.locked })
	m.locked = true
}

// TryLock mirrors sync.Mutex.TryLock.
func (m *Mutex) TryLock() bool {
	Point("Mutex.TryLock")
	if m.locked {
		return false
	}
	m.locked = true
	return true
}

// Unlock releases the mutex. It only enables other threads, so it is not a scheduling point.
func (m *Mutex) Unlock() {
	// no epoch bump: releasing a lock changes nothing a spin loop polls for (waiters are woken through
	// their predicates); bumping here would hide lock-protected spin loops from the spin detector.
	if !m.locked {
		panic("sync: unlock of unlocked mutex")
	}
	m.locked = false
	UnlockPoint("Mutex.Unlock")
}

// RWMutex mirrors sync.RWMutex including Go's writer preference: once a writer is waiting, new readers block.
type RWMutex struct {
	readers        int
	writer         bool
	writersWaiting int
}

// RLock takes a read lock.
func (m *RWMutex) RLock() {
	Block("RWMutex.RLock", func() bool { return !m.writer && m.writersWaiting == 0 })
	m.readers++
}

// RUnlock releases a read lock.
func (m *RWMutex) RUnlock() {
	if m.readers <= 0 {
		panic("sync: RUnlock of unlocked RWMutex")
	}
	m.readers--
	UnlockPoint("RWMutex.RUnlock")
}

// Lock takes the write lock.
func (m *RWMutex) Lock() {
	e := current()
	if e == nil {
		if m.writer || m.readers > 0 {
			panic("vrt: RWMutex.Lock would block outside an execution")
		}
		m.writer = true
		return
	}
	e.zombieCheck()
	// first point: announce; a writer that cannot proceed registers as waiting so that new readers queue behind it.
	Point("RWMutex.Lock")
	if !m.writer && m.readers == 0 {
		m.writer = true
		return
	}
	m.writersWaiting++
	Block("RWMutex.Lock(wait)", func() bool { return !m.writer && m.readers == 0 })
	m.writersWaiting--
	m.writer = true
}

// Unlock releases the write lock.
func (m *RWMutex) Unlock() {
	if !m.writer {
		panic("sync: Unlock of unlocked RWMutex")
	}
	m.writer = false
	UnlockPoint("RWMutex.Unlock")
}

// RLocker mirrors sync.RWMutex.RLocker.
func (m *RWMutex) RLocker() Locker { return (*rlocker)(m) }

type rlocker RWMutex

func (r *rlocker) Lock()   { (*RWMutex)(r).RLock() }
func (r *rlocker) Unlock() { (*RWMutex)(r).RUnlock() }

// Locker mirrors sync.Locker.
type Locker interface {
	Lock()
	Unlock()
}

type wgWaiter struct{ released bool }

// WaitGroup mirrors sync.WaitGroup, including the runtime's misuse panics made deterministic.
type WaitGroup struct {
	n       int
	waiters []*wgWaiter
}

// Add mirrors sync.WaitGroup.Add.
func (wg *WaitGroup) Add(delta int) {
	// Done is a point too: a released waiter re-reads the counter when it resumes (reuse check).
	Point("WaitGroup.Add")
	Bump()
	if delta > 0 && wg.n == 0 && len(wg.waiters) > 0 {
		// cannot happen: waiters are released when the counter reaches zero
		panic("sync: WaitGroup misuse: Add called concurrently with Wait")
	}
	wg.n += delta
	if wg.n < 0 {
		panic("sync: negative WaitGroup counter")
	}
	if wg.n == 0 {
		for _, w := range wg.waiters {
			w.released = true
		}
		wg.waiters = nil
	}
}

// Done mirrors sync.WaitGroup.Done.
func (wg *WaitGroup) Done() { wg.Add(-1) }

// Wait mirrors sync.WaitGroup.Wait. A waiter that was released because the counter reached zero but
// finds it positive again when it resumes panics like the runtime ("reused before previous Wait has returned").
func (wg *WaitGroup) Wait() {
	Point("WaitGroup.Wait")
	if wg.n == 0 {
		return
	}
	w := &wgWaiter{}
	wg.waiters = append(wg.waiters, w)
	Block("WaitGroup.Wait(blocked)", func() bool { return w.released })
	if wg.n != 0 {
		panic("sync: WaitGroup is reused before previous Wait has returned")
	}
}

// Once mirrors sync.Once.
type Once struct {
	done    bool
	running bool
}

// Do mirrors sync.Once.Do.
func (o *Once) Do(f func()) {
	Block("Once.Do", func() bool { return !o.running })
	if o.done {
		return
	}
	o.running = true
	defer func() {
		o.done = true
		o.running = false
		Bump()
	}()
	f()
}

// Cond mirrors sync.Cond.
type Cond struct {
	L       Locker
	waiters []*wgWaiter
}

// NewCond mirrors sync.NewCond.
func NewCond(l Locker) *Cond { return &Cond{L: l} }

// Wait mirrors sync.Cond.Wait.
func (c *Cond) Wait() {
	w := &wgWaiter{}
	c.waiters = append(c.waiters, w)
	c.L.Unlock()
	Block("Cond.Wait", func() bool { return w.released })
	c.L.Lock()
}

// Signal mirrors sync.Cond.Signal.
func (c *Cond) Signal() {
	Point("Cond.Signal")
	if len(c.waiters) > 0 {
		c.waiters[0].released = true
		c.waiters = c.waiters[1:]
		Bump()
	}
}

// Broadcast mirrors sync.Cond.Broadcast.
func (c *Cond) Broadcast() {
	Point("Cond.Broadcast")
	for _, w := range c.waiters {
		w.released = true
	}
	c.waiters = nil
	Bump()
}

// Gate is a harness helper: threads Wait until it is opened.
type Gate struct {
	open    bool
	Arrived int // number of threads that reached Wait
}

// Wait parks the caller until the gate is open.
func (g *Gate) Wait() {
	g.Arrived++
	Bump()
	Block("Gate.Wait", func() bool { return g.open })
}

// Open opens the gate.
func (g *Gate) Open() {
	g.open = true
	Bump()
}

// IsOpen reports whether the gate has been opened.
func (g *Gate) IsOpen() bool { return g.open }

// WaitUntil parks the caller until cond holds (cond must be a pure function of shared state).
func WaitUntil(op string, cond func() bool) {
	Block(op, cond)
}

type ordered interface {
	~int | ~int8 | ~int16 | ~int32 | ~int64 | ~uint | ~uint8 | ~uint16 | ~uint32 | ~uint64 | ~uintptr | ~float32 | ~float64 | ~string
}

// SortedKeys returns the keys of m in ascending order (canonical map iteration order).
func SortedKeys[K ordered, V any](m map[K]V) []K {
	keys := make([]K, 0, len(m))
	for k := range m {
		keys = append(keys, k)
	}
	for i := 1; i < len(keys); i++ {
		for j := i; j > 0 && keys[j] < keys[j-1]; j-- {
			keys[j], keys[j-1] = keys[j-1], keys[j]
		}
	}
	return keys
}
