package vrt

// Chan is a Go channel modelled as scheduler state. The rewriter turns every `chan T` of the rewritten
// packages into *Chan[T], `make(chan T, n)` into MakeChan[T](n), `ch <- v` into ch.Send(v), `<-ch` into
// ch.Recv() / ch.Recv2(), close(ch) into ch.Close() and select into NewSelect/Case*/Wait.
//
// Unbuffered semantics: a send completes only by handing its value directly to a receiver that is parked
// on the channel (and vice versa), exactly the rendezvous of the runtime; which partner is taken when
// several are parked is a recorded choice.
type Chan[T any] struct {
	cap    int
	buf    []T
	closed bool
	id     int
	recvq  []*waiter[T] // parked receivers (plain or select cases)
	sendq  []*waiter[T] // parked senders
}

type waiter[T any] struct {
	t    *Thread
	val  T
	ok   bool
	done bool    // operation completed by a partner
	sel  *Select // non-nil when part of a select
	idx  int     // case index within the select
}

// MakeChan mirrors make(chan T, n).
func MakeChan[T any](n ...int) *Chan[T] {
	c := &Chan[T]{id: ObjID()}
	if len(n) > 0 {
		c.cap = n[0]
	}
	return c
}

// Len mirrors len(ch).
func (c *Chan[T]) Len() int {
	if c == nil {
		return 0
	}
	return len(c.buf)
}

// Cap mirrors cap(ch).
func (c *Chan[T]) Cap() int {
	if c == nil {
		return 0
	}
	return c.cap
}

func never() bool { return false }

func (c *Chan[T]) liveRecv() []*waiter[T] {
	out := c.recvq[:0]
	for _, w := range c.recvq {
		if !w.done && (w.sel == nil || !w.sel.fired) {
			out = append(out, w)
		}
	}
	c.recvq = out
	return out
}

func (c *Chan[T]) liveSend() []*waiter[T] {
	out := c.sendq[:0]
	for _, w := range c.sendq {
		if !w.done && (w.sel == nil || !w.sel.fired) {
			out = append(out, w)
		}
	}
	c.sendq = out
	return out
}

func (c *Chan[T]) sendReady(self *Thread) bool {
	if c.closed {
		return true // will panic
	}
	if len(c.buf) < c.cap {
		return true
	}
	if len(c.buf) > 0 {
		return false // full buffer: parked receivers have simply not run yet
	}
	for _, w := range c.liveRecv() {
		if w.t != self {
			return true
		}
	}
	return false
}

func (c *Chan[T]) recvReady(self *Thread) bool {
	if len(c.buf) > 0 || c.closed {
		return true
	}
	for _, w := range c.liveSend() {
		if w.t != self {
			return true
		}
	}
	return false
}

// doSend performs a send that sendReady has approved. Caller holds the baton.
func (c *Chan[T]) doSend(self *Thread, v T) {
	if c.closed {
		panic("send on closed channel")
	}
	Bump()
	// hand over to a parked receiver first (the buffer is necessarily empty when receivers are parked)
	var cands []*waiter[T]
	for _, w := range c.liveRecv() {
		if w.t != self {
			cands = append(cands, w)
		}
	}
	if len(cands) > 0 && len(c.buf) == 0 {
		w := cands[Choose(len(cands), "partner", false)]
		w.val, w.ok, w.done = v, true, true
		if w.sel != nil {
			w.sel.fired = true
			w.sel.chosen = w.idx
		}
		return
	}
	if len(c.buf) < c.cap {
		c.buf = append(c.buf, v)
		return
	}
	panic("vrt: doSend called when not ready")
}

// doRecv performs a receive that recvReady has approved.
func (c *Chan[T]) doRecv(self *Thread) (v T, ok bool) {
	Bump()
	if len(c.buf) > 0 {
		v = c.buf[0]
		c.buf = c.buf[1:]
		// a parked sender can now move its value into the buffer
		for _, w := range c.liveSend() {
			if w.t != self {
				c.buf = append(c.buf, w.val)
				w.done = true
				if w.sel != nil {
					w.sel.fired = true
					w.sel.chosen = w.idx
				}
				break
			}
		}
		return v, true
	}
	var cands []*waiter[T]
	for _, w := range c.liveSend() {
		if w.t != self {
			cands = append(cands, w)
		}
	}
	if len(cands) > 0 {
		w := cands[Choose(len(cands), "partner", false)]
		w.done = true
		if w.sel != nil {
			w.sel.fired = true
			w.sel.chosen = w.idx
		}
		return w.val, true
	}
	if c.closed {
		return v, false
	}
	panic("vrt: doRecv called when not ready")
}

// Send mirrors `c <- v`.
func (c *Chan[T]) Send(v T) {
	if c == nil {
		Block("chan.send(nil)", never)
		return
	}
	e := current()
	if e == nil {
		if !c.sendReady(nil) {
			panic("vrt: channel send would block outside an execution")
		}
		c.doSend(nil, v)
		return
	}
	e.zombieCheck()
	t := e.cur
	w := &waiter[T]{t: t, val: v}
	c.sendq = append(c.sendq, w)
	Block("chan.send", func() bool { return w.done || c.sendReady(t) })
	if w.done {
		return
	}
	w.done = true // withdraw
	c.doSend(t, v)
}

// Recv mirrors `<-c`.
func (c *Chan[T]) Recv() T {
	v, _ := c.Recv2()
	return v
}

// Recv2 mirrors `v, ok := <-c`.
func (c *Chan[T]) Recv2() (T, bool) {
	if c == nil {
		Block("chan.recv(nil)", never)
		var z T
		return z, false
	}
	e := current()
	if e == nil {
		if !c.recvReady(nil) {
			panic("vrt: channel receive would block outside an execution")
		}
		return c.doRecv(nil)
	}
	e.zombieCheck()
	t := e.cur
	w := &waiter[T]{t: t}
	c.recvq = append(c.recvq, w)
	Block("chan.recv", func() bool { return w.done || c.recvReady(t) })
	if w.done {
		return w.val, w.ok
	}
	w.done = true // withdraw
	return c.doRecv(t)
}

// Close mirrors close(c).
func (c *Chan[T]) Close() {
	if c == nil {
		panic("close of nil channel")
	}
	Point("chan.close")
	if c.closed {
		panic("close of closed channel")
	}
	c.closed = true
	Bump()
	// parked senders panic in the runtime; parked receivers see the zero value: both are handled by
	// their predicates becoming true.
}

// ---- select ----

type selCase struct {
	ready    func(self *Thread) bool
	fire     func(self *Thread) // performs the operation actively
	register func(self *Thread, s *Select, idx int)
	isNil    bool
}

// Select is a select statement in progress.
type Select struct {
	hasDefault bool
	cases      []selCase
	fired      bool
	chosen     int
}

// RecvCase is the handle of a receive case.
type RecvCase[T any] struct {
	c   *Chan[T]
	w   *waiter[T]
	val T
	ok  bool
}

// Value returns the received value.
func (r *RecvCase[T]) Value() T { return r.val }

// Value2 returns the received value and whether the channel was open.
func (r *RecvCase[T]) Value2() (T, bool) { return r.val, r.ok }

// NewSelect starts a select statement.
func NewSelect(hasDefault bool) *Select { return &Select{hasDefault: hasDefault, chosen: -1} }

// CaseRecv adds `case <-c`.
func CaseRecv[T any](s *Select, c *Chan[T]) *RecvCase[T] {
	r := &RecvCase[T]{c: c}
	if c == nil {
		s.cases = append(s.cases, selCase{isNil: true})
		return r
	}
	s.cases = append(s.cases, selCase{
		ready: func(self *Thread) bool { return c.recvReady(self) },
		fire:  func(self *Thread) { r.val, r.ok = c.doRecv(self) },
		register: func(self *Thread, sel *Select, idx int) {
			r.w = &waiter[T]{t: self, sel: sel, idx: idx}
			c.recvq = append(c.recvq, r.w)
		},
	})
	return r
}

// CaseSend adds `case c <- v`.
func CaseSend[T any](s *Select, c *Chan[T], v T) {
	if c == nil {
		s.cases = append(s.cases, selCase{isNil: true})
		return
	}
	s.cases = append(s.cases, selCase{
		ready: func(self *Thread) bool { return c.sendReady(self) },
		fire:  func(self *Thread) { c.doSend(self, v) },
		register: func(self *Thread, sel *Select, idx int) {
			c.sendq = append(c.sendq, &waiter[T]{t: self, val: v, sel: sel, idx: idx})
		},
	})
}

// CaseSendOn is CaseSend as a method: the value only has to be assignable to the element type (a concrete type sent
// on a channel of an interface type), which type inference for the function form does not allow.
func (c *Chan[T]) CaseSendOn(s *Select, v T) { CaseSend(s, c, v) }

// finishPassive copies a value handed over by a partner into the case handle.
func (r *RecvCase[T]) finishPassive() {
	if r.w != nil && r.w.done {
		r.val, r.ok = r.w.val, r.w.ok
	}
}

// Wait blocks until a case can proceed, performs it and returns its index (-1 for default).
// recvs lists the receive handles so that passively completed receives can be finalised.
func (s *Select) Wait(recvs ...interface{ finishPassive() }) int {
	e := current()
	var t *Thread
	if e != nil {
		e.zombieCheck()
		t = e.cur
	}
	readyIdx := func() []int {
		var out []int
		for i, c := range s.cases {
			if !c.isNil && c.ready(t) {
				out = append(out, i)
			}
		}
		return out
	}
	if s.hasDefault {
		// a poll: scheduling point, then take a ready case or default.
		if e != nil {
			Poll("select-default", Site(2))
		}
		r := readyIdx()
		if len(r) == 0 {
			return -1
		}
		i := r[Choose(len(r), "select", false)]
		s.fired = true
		s.cases[i].fire(t)
		return i
	}
	if e == nil {
		r := readyIdx()
		if len(r) == 0 {
			panic("vrt: select would block outside an execution")
		}
		s.cases[r[0]].fire(nil)
		return r[0]
	}
	for i, c := range s.cases {
		if !c.isNil {
			c.register(t, s, i)
		}
	}
	Block("select", func() bool { return s.fired || len(readyIdx()) > 0 })
	if s.fired {
		// completed passively by a partner
		for _, r := range recvs {
			r.finishPassive()
		}
		return s.chosen
	}
	r := readyIdx()
	i := r[Choose(len(r), "select", false)]
	s.fired = true // withdraws all registered waiters
	s.chosen = i
	s.cases[i].fire(t)
	return i
}

// TrySend is a non-blocking send used by timers (runs in scheduler context): the value is dropped if
// the buffer is full, like the runtime's ticker.
func (c *Chan[T]) TrySend(v T) {
	if len(c.buf) < c.cap && !c.closed {
		c.buf = append(c.buf, v)
		Bump()
	}
}
