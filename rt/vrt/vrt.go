// Package vrt is the runtime of gosim, the controlled scheduler used to model-check martian.
//
// Every thread of the system under test is a real goroutine, but exactly one of them runs at a
// time ("holds the baton"). Before every visible operation (lock, channel op, atomic, socket op,
// sleep, ...) the running thread reaches a *point*: it publishes an enabledness predicate and the
// scheduler decides which enabled thread continues. The decisions are taken from a prescribed
// prefix of choices (replay) and default to choice 0 afterwards, which is what makes the
// exploration in explore.go a stateless depth-first search over choice sequences.
//
// The package is mounted into the martian module as github.com/google/martian/v3/zzverif/vrt by a
// go build overlay; it only depends on the standard library and is written for go 1.18.
package vrt

import (
	"fmt"
	"os"
	"runtime"
	"sort"
	"strings"
	"sync"
	"sync/atomic"
	"time"
)

// Choice is one recorded decision with more than one alternative.
type Choice struct {
	N    int    // number of alternatives
	C    int    // alternative taken
	Kind string // "sched", "select", "partner", or a harness supplied kind for data choices
	Cost int    // cost of taking a non-zero alternative at this point (0 = free)
	Tid  int    // running thread when the choice was made
}

// Config bounds one execution.
type Config struct {
	MaxPoints  int           // horizon on scheduler points (0 = 200000)
	MaxVTime   time.Duration // horizon on virtual time (0 = 1h)
	SwitchFree bool          // alternatives at a non-preemptive switch cost nothing (CHESS style)
	Trace      bool          // record every point in Result.Trace
	// UnlockPoints makes Mutex.Unlock / RWMutex.Unlock / RUnlock scheduling points as well (taken after the lock
	// has been released). Without it the code between an unlock and the thread's next synchronisation operation
	// runs atomically with the critical section before it, which is equivalent for race-free code but hides
	// "read under the lock, act after releasing it" mistakes. It multiplies the number of interleavings, so it is
	// meant for the small all-interleavings scenarios.
	UnlockPoints bool
}

// ThreadInfo describes a thread at the end of an execution.
type ThreadInfo struct {
	ID      int
	Label   string // spawn site file:line or harness supplied name
	Done    bool
	Blocked string // operation it is parked on, if not done
}

// Result is what one execution produced.
type Result struct {
	Outcome  string // "ok" (root returned), "deadlock" (root blocked, nothing enabled), "panic", "horizon", "divergence", "livelock"
	Panic    string
	PanicTid int
	Choices  []Choice
	Points   int
	VNow     time.Duration
	Log      []string
	Threads  []ThreadInfo
	Trace    []string
	Zombies  int // threads that did not exit when killed (engine diagnostic)
}

type timer struct {
	when int64
	seq  int64
	fn   func()
	dead bool
}

// Thread is one scheduled thread.
type Thread struct {
	id      int
	label   string
	wake    chan struct{}
	pred    func() bool
	op      string
	done    bool
	quiesce bool // parked in WaitQuiescent
	started bool
	body    func()
	exited  chan struct{}

	// polling support
	pollSeen  map[uintptr]bool
	pollEpoch uint64
	spin      bool // parked as a spinner
	released  bool // spinner released at quiescence
	local     map[interface{}]interface{}
}

// ID returns the thread id (spawn order, root = 0).
func (t *Thread) ID() int { return t.id }

// Exec is one execution under the scheduler.
type Exec struct {
	cfg       Config
	threads   []*Thread
	cur       *Thread
	prefix    []int
	pos       int
	choices   []Choice
	points    int
	now       int64
	timers    []*timer
	tseq      int64
	epoch     uint64
	ended     int32
	endOnce   sync.Once
	done      chan struct{}
	res       *Result
	log       []string
	trace     []string
	objSeq    int
	tick      int
	spinRel   int
	spinEpoch uint64
}

var active atomic.Value // *Exec or (*Exec)(nil)

func current() *Exec {
	v := active.Load()
	if v == nil {
		return nil
	}
	return v.(*Exec)
}

// Active reports whether an execution is in progress (false during package init and in native mode).
func Active() bool {
	e := current()
	return e != nil && atomic.LoadInt32(&e.ended) == 0
}

// Cur returns the running thread. Only valid while called by the thread holding the baton.
func Cur() *Thread {
	e := current()
	if e == nil {
		return nil
	}
	return e.cur
}

// CurID returns the running thread's id or -1.
func CurID() int {
	if t := Cur(); t != nil {
		return t.id
	}
	return -1
}

// Now returns the virtual time offset of the active execution.
func Now() time.Duration {
	e := current()
	if e == nil {
		return 0
	}
	return time.Duration(e.now)
}

// Epoch returns the write epoch (bumped by every operation that may change what a poller sees).
func Epoch() uint64 {
	e := current()
	if e == nil {
		return 0
	}
	return e.epoch
}

// Bump advances the write epoch.
func Bump() {
	if e := current(); e != nil {
		e.epoch++
	}
}

type divergence struct{ msg string }

// zombieCheck terminates the calling goroutine if its execution is over.
func (e *Exec) zombieCheck() {
	if atomic.LoadInt32(&e.ended) != 0 {
		runtime.Goexit()
	}
}

func (e *Exec) finish(outcome string) {
	e.endOnce.Do(func() {
		r := e.res
		if r.Outcome == "" {
			r.Outcome = outcome
		}
		r.Choices = e.choices
		r.Points = e.points
		r.VNow = time.Duration(e.now)
		r.Log = e.log
		r.Trace = e.trace
		for _, t := range e.threads {
			ti := ThreadInfo{ID: t.id, Label: t.label, Done: t.done}
			if !t.done {
				ti.Blocked = t.op
				if t == e.cur && outcome != "deadlock" {
					ti.Blocked = "running"
				}
			}
			r.Threads = append(r.Threads, ti)
		}
		atomic.StoreInt32(&e.ended, 1)
		close(e.done)
	})
}

// choose records a decision among n alternatives.
func (e *Exec) choose(n int, kind string, cost int) int {
	if n <= 1 {
		return 0
	}
	c := 0
	if e.pos < len(e.prefix) {
		c = e.prefix[e.pos]
		if c < 0 || c >= n {
			e.res.Outcome = "divergence"
			e.res.Panic = fmt.Sprintf("replay divergence at choice %d: prefix wants %d of %d (%s)", e.pos, c, n, kind)
			e.finish("divergence")
			runtime.Goexit()
		}
	}
	e.pos++
	tid := -1
	if e.cur != nil {
		tid = e.cur.id
	}
	e.choices = append(e.choices, Choice{N: n, C: c, Kind: kind, Cost: cost, Tid: tid})
	return c
}

func (t *Thread) enabled() bool {
	if t.done || !t.started && t.body == nil {
		return false
	}
	if t.quiesce {
		return false
	}
	return t.pred == nil || t.pred()
}

// schedule is called by the running thread t (which has published its pred, or is done). It picks the
// next thread and transfers the baton. It returns when t holds the baton again.
func (e *Exec) schedule(t *Thread) {
	for {
		e.points++
		if e.points > e.cfg.MaxPoints || time.Duration(e.now) > e.cfg.MaxVTime {
			e.finish("horizon")
			runtime.Goexit()
		}
		e.fireDue()
		var en []*Thread
		selfEnabled := !t.done && t.enabled()
		if selfEnabled {
			en = append(en, t)
		}
		for _, o := range e.threads {
			if o != t && o.enabled() {
				en = append(en, o)
			}
		}
		if len(en) == 0 {
			// quiescence: first threads waiting for quiescence, then timers.
			var q *Thread
			for _, o := range e.threads {
				if !o.done && o.quiesce {
					q = o
					break
				}
			}
			if q != nil {
				q.quiesce = false
				en = append(en, q)
			} else if e.fireTimer() {
				e.spinRel = 0
				continue
			} else if sp := e.releaseSpinner(); sp {
				continue
			} else {
				root := e.threads[0]
				if root.done {
					e.finish("ok")
				} else {
					e.finish("deadlock")
				}
				runtime.Goexit()
			}
		}
		cost := 1
		if !selfEnabled && e.cfg.SwitchFree {
			cost = 0
		}
		idx := e.choose(len(en), "sched", cost)
		next := en[idx]
		if e.cfg.Trace {
			e.trace = append(e.trace, fmt.Sprintf("t%d %s -> t%d (%d enabled)", t.id, t.op, next.id, len(en)))
		}
		if next == t {
			return
		}
		e.cur = next
		e.resume(next)
		if t.done {
			return
		}
		<-t.wake
		e.zombieCheck()
		return
	}
}

// releaseSpinner lets one parked spinner take another turn when nothing else can happen; if that keeps
// happening without any write the execution is a livelock.
func (e *Exec) releaseSpinner() bool {
	for _, o := range e.threads {
		if !o.done && o.spin && !o.released {
			if e.spinEpoch == e.epoch {
				e.spinRel++
			} else {
				e.spinRel = 0
				e.spinEpoch = e.epoch
			}
			if e.spinRel > 50 {
				e.finish("livelock")
				runtime.Goexit()
			}
			o.released = true
			return true
		}
	}
	return false
}

func (e *Exec) resume(next *Thread) {
	if !next.started {
		next.started = true
		go e.threadMain(next)
		return
	}
	next.wake <- struct{}{}
}

func (e *Exec) threadMain(t *Thread) {
	defer close(t.exited)
	defer func() {
		if atomic.LoadInt32(&e.ended) != 0 {
			// zombie unwinding (Goexit) or execution already over
			recover()
			return
		}
		if r := recover(); r != nil {
			if d, ok := r.(divergence); ok {
				e.res.Outcome = "divergence"
				e.res.Panic = d.msg
				e.finish("divergence")
				return
			}
			buf := make([]byte, 16<<10)
			buf = buf[:runtime.Stack(buf, false)]
			e.res.Outcome = "panic"
			e.res.Panic = fmt.Sprintf("%v\n%s", r, trimStack(string(buf)))
			e.res.PanicTid = t.id
			e.finish("panic")
			return
		}
		// normal return
		t.done = true
		t.op = "done"
		e.epoch++
		if t.id == 0 {
			e.finish("ok")
			return
		}
		e.schedule(t)
	}()
	body := t.body
	t.body = nil
	body()
}

func trimStack(s string) string {
	lines := strings.Split(s, "\n")
	var out []string
	for _, l := range lines {
		if strings.Contains(l, "/zzverif/vrt") || strings.Contains(l, "runtime/") || strings.HasPrefix(l, "goroutine ") {
			continue
		}
		out = append(out, l)
		if len(out) > 24 {
			break
		}
	}
	return strings.Join(out, "\n")
}

// Point is a scheduling point before a visible operation that cannot block.
func Point(op string) {
	e := current()
	if e == nil {
		return
	}
	e.zombieCheck()
	t := e.cur
	t.pred = nil
	t.op = op
	e.schedule(t)
}

// UnlockPoint is called by the lock types after a release: a scheduling point if Config.UnlockPoints is set.
func UnlockPoint(op string) {
	if e := current(); e != nil && e.cfg.UnlockPoints {
		Point(op)
	}
}

// Block is a scheduling point before an operation that is enabled only when pred holds. On return
// pred is true and the caller holds the baton (so it can perform the operation atomically).
func Block(op string, pred func() bool) {
	e := current()
	if e == nil {
		if pred != nil && !pred() {
			panic("vrt: blocking operation outside an execution: " + op)
		}
		return
	}
	e.zombieCheck()
	t := e.cur
	t.pred = pred
	t.op = op
	e.schedule(t)
	t.pred = nil
}

// Choose is an environment (data) choice with n alternatives; alternative 0 is the default answer and
// every other alternative is a deviation of cost 1 (or free).
func Choose(n int, kind string, free bool) int {
	e := current()
	if e == nil {
		return 0
	}
	e.zombieCheck()
	cost := 1
	if free {
		cost = 0
	}
	return e.choose(n, kind, cost)
}

// Go spawns a new scheduled thread. The spawn itself is not a point: the new thread becomes
// schedulable at the spawner's next point.
func Go(f func()) *Thread {
	return GoNamed("", f)
}

// GoNamed spawns a thread with an explicit label.
func GoNamed(label string, f func()) *Thread {
	e := current()
	if e == nil {
		// native: plain goroutine
		go f()
		return nil
	}
	e.zombieCheck()
	if label == "" {
		for skip := 1; skip < 6; skip++ {
			pc, file, _, ok := runtime.Caller(skip)
			if !ok {
				break
			}
			if strings.Contains(file, "/zzverif/") || strings.Contains(file, "/rt/vrt/") {
				continue
			}
			// label = spawning function, e.g. "martian.(*Proxy).Serve" (stable across rewriting)
			if fn := runtime.FuncForPC(pc); fn != nil {
				label = fn.Name()
				if i := strings.LastIndex(label, "/"); i >= 0 {
					label = label[i+1:]
				}
			}
			break
		}
	}
	t := &Thread{id: len(e.threads), label: label, wake: make(chan struct{}, 1), body: f, exited: make(chan struct{})}
	e.threads = append(e.threads, t)
	e.epoch++
	return t
}

// Join blocks until thread t has finished.
func Join(t *Thread) {
	if t == nil {
		return
	}
	Block("join", func() bool { return t.done })
}

// Done reports whether t has finished (no scheduling point).
func (t *Thread) Done() bool { return t.done }

// WaitQuiescent parks the caller until no other thread is enabled, without letting virtual time advance.
func WaitQuiescent() {
	e := current()
	if e == nil {
		return
	}
	e.zombieCheck()
	t := e.cur
	t.quiesce = true
	t.pred = nil
	t.op = "wait-quiescent"
	e.schedule(t)
	t.quiesce = false
}

// Log appends an observation to the execution log.
func Log(format string, args ...interface{}) {
	e := current()
	if e == nil || atomic.LoadInt32(&e.ended) != 0 {
		return
	}
	e.log = append(e.log, fmt.Sprintf(format, args...))
}

// Tick returns a fresh, strictly increasing event number of the current execution (harness event ordering).
func Tick() int {
	e := current()
	if e == nil {
		return 0
	}
	e.tick++
	return e.tick
}

// Snapshot lists all threads of the current execution (harness oracles: "has the handler finished?").
func Snapshot() []ThreadInfo {
	e := current()
	if e == nil {
		return nil
	}
	var out []ThreadInfo
	for _, t := range e.threads {
		ti := ThreadInfo{ID: t.id, Label: t.label, Done: t.done}
		if !t.done {
			ti.Blocked = t.op
		}
		out = append(out, ti)
	}
	return out
}

// ObjID hands out small allocation-ordered ids for objects (used in traces instead of addresses).
func ObjID() int {
	e := current()
	if e == nil {
		return 0
	}
	e.objSeq++
	return e.objSeq
}

// ---- timers ----

// AddTimer registers fn to run (holding the baton, in scheduler context) when virtual time reaches
// now+d. It returns a cancel function.
func AddTimer(d time.Duration, fn func()) (cancel func()) {
	e := current()
	if e == nil {
		panic("vrt: AddTimer outside an execution")
	}
	if d < 0 {
		d = 0
	}
	e.tseq++
	tm := &timer{when: e.now + int64(d), seq: e.tseq, fn: fn}
	e.timers = append(e.timers, tm)
	return func() { tm.dead = true }
}

// fireDue fires every timer whose deadline has already been reached (e.g. Sleep(0)): no time needs to pass for
// them, so the threads they release compete with the other enabled threads instead of waiting for quiescence.
func (e *Exec) fireDue() {
	for {
		fired := false
		for _, tm := range e.timers {
			if !tm.dead && tm.when <= e.now {
				tm.dead = true
				e.epoch++
				tm.fn()
				fired = true
				break
			}
		}
		if !fired {
			return
		}
	}
}

func (e *Exec) fireTimer() bool {
	// drop dead timers, find earliest
	live := e.timers[:0]
	for _, tm := range e.timers {
		if !tm.dead {
			live = append(live, tm)
		}
	}
	e.timers = live
	if len(live) == 0 {
		return false
	}
	sort.SliceStable(live, func(i, j int) bool {
		if live[i].when != live[j].when {
			return live[i].when < live[j].when
		}
		return live[i].seq < live[j].seq
	})
	tm := live[0]
	e.timers = append([]*timer(nil), live[1:]...)
	if tm.when > e.now {
		e.now = tm.when
	}
	e.epoch++
	tm.fn()
	return true
}

// Sleep blocks the caller for d of virtual time.
func Sleep(d time.Duration) {
	e := current()
	if e == nil {
		time.Sleep(d)
		return
	}
	e.zombieCheck()
	fired := false
	AddTimer(d, func() { fired = true })
	Block("sleep", func() bool { return fired })
}

// ---- polling (spin loops) ----

// Site hashes the top frames of the caller's stack; it identifies a polling site.
func Site(skip int) uintptr {
	var pcs [4]uintptr
	n := runtime.Callers(skip+1, pcs[:])
	var h uintptr = 1469598103
	for _, pc := range pcs[:n] {
		h = h*1099511 ^ pc
	}
	return h
}

// Poll is called by operations that merely observe shared state (atomic loads, select with default).
// A thread that polls a site it has already polled since the last write by anybody is spinning: it is
// parked until the epoch changes (another thread wrote something or a timer fired).
func Poll(op string, site uintptr) {
	e := current()
	if e == nil {
		return
	}
	e.zombieCheck()
	t := e.cur
	if t.pollEpoch != e.epoch || t.pollSeen == nil {
		t.pollSeen = map[uintptr]bool{}
		t.pollEpoch = e.epoch
	}
	if t.pollSeen[site] {
		ep := e.epoch
		t.spin = true
		t.pred = func() bool { return e.epoch != ep || t.released }
		t.op = op + "(spin)"
		e.schedule(t)
		t.pred = nil
		t.spin = false
		t.released = false
		t.pollSeen = map[uintptr]bool{site: true}
		t.pollEpoch = e.epoch
		return
	}
	t.pollSeen[site] = true
	t.pred = nil
	t.op = op
	e.schedule(t)
}

// ---- running executions ----

var runMu sync.Mutex

// Run performs one execution of body under the scheduler, replaying prefix and then taking choice 0.
// RunSeq numbers the executions of this process; state that must not leak from one execution into the next
// (vsync.Pool contents) is keyed on it.
func RunSeq() uint64 { return atomic.LoadUint64(&runSeq) }

var runSeq uint64

func Run(cfg Config, prefix []int, body func()) *Result {
	runMu.Lock()
	defer runMu.Unlock()
	atomic.AddUint64(&runSeq, 1)
	if cfg.MaxPoints == 0 {
		cfg.MaxPoints = 200000
	}
	if cfg.MaxVTime == 0 {
		cfg.MaxVTime = time.Hour
	}
	e := &Exec{cfg: cfg, prefix: prefix, done: make(chan struct{}), res: &Result{}}
	root := &Thread{id: 0, label: "root", wake: make(chan struct{}, 1), body: body, exited: make(chan struct{})}
	e.threads = append(e.threads, root)
	e.cur = root
	active.Store(e)
	root.started = true
	go e.threadMain(root)
	// watchdog: a running thread that reaches no scheduling point for a long time is blocked in something
	// the engine does not own (a real lock, a real channel, real I/O): that is an engine error, never a verdict.
	wd := time.NewTicker(15 * time.Second)
	last := -1
	waiting := true
	for waiting {
		select {
		case <-e.done:
			waiting = false
		case <-wd.C:
			if e.points == last {
				buf := make([]byte, 1<<20)
				fmt.Fprintf(os.Stderr, "ENGINE ERROR: no scheduling point for 15s (thread blocked outside the scheduler)\n%s\n", buf[:runtime.Stack(buf, true)])
				os.Exit(2)
			}
			last = e.points
		}
	}
	wd.Stop()
	// kill every thread that is still parked; they unwind via Goexit.
	for _, t := range e.threads {
		if t.started {
			select {
			case t.wake <- struct{}{}:
			default:
			}
		}
	}
	deadline := time.After(5 * time.Second)
	for _, t := range e.threads {
		if !t.started {
			continue
		}
		select {
		case <-t.exited:
		case <-deadline:
			e.res.Zombies++
		}
	}
	active.Store((*Exec)(nil))
	return e.res
}
