// Package vsync replaces "sync" in rewritten martian sources (same names, scheduler-state semantics).
package vsync

import (
	"sync"

	"github.com/google/martian/v3/zzverif/vrt"
)

type (
	Mutex     = vrt.Mutex
	RWMutex   = vrt.RWMutex
	WaitGroup = vrt.WaitGroup
	Once      = vrt.Once
	Cond      = vrt.Cond
	Locker    = vrt.Locker
)

// Pool replaces sync.Pool. The real one keeps per-P caches and is emptied by the garbage collector, so what Get
// returns depends on the Go scheduler and on what earlier executions of the same process left behind. This one is
// a plain LIFO free list that starts empty in every execution (one goroutine runs at a time under the
// scheduler, so no lock is needed); Get and Put are scheduling points like the other shared-state operations.
type Pool struct {
	New   func() interface{}
	items []interface{}
	run   uint64
}

func (p *Pool) fresh() {
	if r := vrt.RunSeq(); r != p.run {
		p.run, p.items = r, nil
	}
}

// Get mirrors sync.Pool.Get.
func (p *Pool) Get() interface{} {
	vrt.Point("Pool.Get")
	p.fresh()
	if n := len(p.items); n > 0 {
		x := p.items[n-1]
		p.items = p.items[:n-1]
		vrt.Bump()
		return x
	}
	if p.New != nil {
		return p.New()
	}
	return nil
}

// Put mirrors sync.Pool.Put.
func (p *Pool) Put(x interface{}) {
	vrt.Point("Pool.Put")
	p.fresh()
	p.items = append(p.items, x)
	vrt.Bump()
}

// NewCond mirrors sync.NewCond.
func NewCond(l Locker) *Cond { return vrt.NewCond(l) }

// Map wraps sync.Map; every method is a scheduling point.
type Map struct{ m sync.Map }

func (m *Map) Load(key interface{}) (interface{}, bool) { vrt.Point("Map.Load"); return m.m.Load(key) }
func (m *Map) Store(key, value interface{}) {
	vrt.Point("Map.Store")
	vrt.Bump()
	m.m.Store(key, value)
}
func (m *Map) LoadOrStore(key, value interface{}) (interface{}, bool) {
	vrt.Point("Map.LoadOrStore")
	vrt.Bump()
	return m.m.LoadOrStore(key, value)
}
func (m *Map) LoadAndDelete(key interface{}) (interface{}, bool) {
	vrt.Point("Map.LoadAndDelete")
	vrt.Bump()
	return m.m.LoadAndDelete(key)
}
func (m *Map) Delete(key interface{}) { vrt.Point("Map.Delete"); vrt.Bump(); m.m.Delete(key) }
func (m *Map) Range(f func(key, value interface{}) bool) {
	vrt.Point("Map.Range")
	m.m.Range(f)
}
