// Package vsync replaces "sync" in rewritten martian sources (same names, scheduler-state semantics).
package vsync

import (
	"sync"

	"github.com/google/martian/v3/zzverif/vrt"
)

type (
	Mutex     = vrt.Mutex
	RWMutex   = vrt.RWMutex
	WaitGroup = vrt.WaitGroup
	Once      = vrt.Once
	Cond      = vrt.Cond
	Locker    = vrt.Locker
	Pool      = sync.Pool
)

// NewCond mirrors sync.NewCond.
func NewCond(l Locker) *Cond { return vrt.NewCond(l) }

// Map wraps sync.Map; every method is a scheduling point.
type Map struct{ m sync.Map }

func (m *Map) Load(key interface{}) (interface{}, bool) { vrt.Point("Map.Load"); return m.m.Load(key) }
func (m *Map) Store(key, value interface{}) {
	vrt.Point("Map.Store")
	vrt.Bump()
	m.m.Store(key, value)
}
func (m *Map) LoadOrStore(key, value interface{}) (interface{}, bool) {
	vrt.Point("Map.LoadOrStore")
	vrt.Bump()
	return m.m.LoadOrStore(key, value)
}
func (m *Map) LoadAndDelete(key interface{}) (interface{}, bool) {
	vrt.Point("Map.LoadAndDelete")
	vrt.Bump()
	return m.m.LoadAndDelete(key)
}
func (m *Map) Delete(key interface{}) { vrt.Point("Map.Delete"); vrt.Bump(); m.m.Delete(key) }
func (m *Map) Range(f func(key, value interface{}) bool) {
	vrt.Point("Map.Range")
	m.m.Range(f)
}
