// Package vtime replaces "time" in rewritten martian sources. Types, constants and pure functions are
// the real ones; Now/Since/Sleep/tickers/timers run on the scheduler's virtual clock, which only
// advances when no thread is enabled.
package vtime

import (
	"time"

	"github.com/google/martian/v3/zzverif/vrt"
)

type (
	Duration   = time.Duration
	Time       = time.Time
	Month      = time.Month
	Weekday    = time.Weekday
	Location   = time.Location
	ParseError = time.ParseError
)

const (
	Nanosecond  = time.Nanosecond
	Microsecond = time.Microsecond
	Millisecond = time.Millisecond
	Second      = time.Second
	Minute      = time.Minute
	Hour        = time.Hour

	ANSIC       = time.ANSIC
	UnixDate    = time.UnixDate
	RubyDate    = time.RubyDate
	RFC822      = time.RFC822
	RFC822Z     = time.RFC822Z
	RFC850      = time.RFC850
	RFC1123     = time.RFC1123
	RFC1123Z    = time.RFC1123Z
	RFC3339     = time.RFC3339
	RFC3339Nano = time.RFC3339Nano
	Kitchen     = time.Kitchen
	Stamp       = time.Stamp
	StampMilli  = time.StampMilli
	StampMicro  = time.StampMicro
	StampNano   = time.StampNano

	January   = time.January
	February  = time.February
	March     = time.March
	April     = time.April
	May       = time.May
	June      = time.June
	July      = time.July
	August    = time.August
	September = time.September
	October   = time.October
	November  = time.November
	December  = time.December
)

var (
	UTC   = time.UTC
	Local = time.Local
)

var base = time.Now().Truncate(time.Second)

// Base returns the wall-clock instant that corresponds to virtual offset 0.
func Base() time.Time { return base }

// SetBase moves the origin of the virtual clock (harness use).
func SetBase(t time.Time) { base = t }

func Now() Time {
	if !vrt.Active() {
		return time.Now()
	}
	return base.Add(vrt.Now())
}
func Since(t Time) Duration { return Now().Sub(t) }
func Until(t Time) Duration { return t.Sub(Now()) }
func Sleep(d Duration)      { vrt.Sleep(d) }

func Unix(sec, nsec int64) Time { return time.Unix(sec, nsec) }
func UnixMilli(ms int64) Time   { return time.UnixMilli(ms) }
func UnixMicro(us int64) Time   { return time.UnixMicro(us) }
func Date(y int, m Month, d, h, mi, s, ns int, l *Location) Time {
	return time.Date(y, m, d, h, mi, s, ns, l)
}
func Parse(layout, value string) (Time, error) { return time.Parse(layout, value) }
func ParseInLocation(layout, value string, l *Location) (Time, error) {
	return time.ParseInLocation(layout, value, l)
}
func ParseDuration(s string) (Duration, error)    { return time.ParseDuration(s) }
func LoadLocation(name string) (*Location, error) { return time.LoadLocation(name) }
func FixedZone(name string, off int) *Location    { return time.FixedZone(name, off) }

// Ticker mirrors time.Ticker on the virtual clock.
type Ticker struct {
	C      *vrt.Chan[Time]
	d      Duration
	cancel func()
	stop   bool
}

func NewTicker(d Duration) *Ticker {
	if d <= 0 {
		panic("non-positive interval for NewTicker")
	}
	t := &Ticker{C: vrt.MakeChan[Time](1), d: d}
	t.arm()
	return t
}

func (t *Ticker) arm() {
	if !vrt.Active() {
		return
	}
	t.cancel = vrt.AddTimer(t.d, func() {
		if t.stop {
			return
		}
		t.C.TrySend(Now())
		t.arm()
	})
}

func (t *Ticker) Stop() {
	t.stop = true
	if t.cancel != nil {
		t.cancel()
	}
}

func (t *Ticker) Reset(d Duration) {
	t.Stop()
	t.stop = false
	t.d = d
	t.arm()
}

func Tick(d Duration) *vrt.Chan[Time] { return NewTicker(d).C }

// Timer mirrors time.Timer on the virtual clock.
type Timer struct {
	C      *vrt.Chan[Time]
	f      func()
	cancel func()
	armed  bool
}

func NewTimer(d Duration) *Timer {
	t := &Timer{C: vrt.MakeChan[Time](1)}
	t.start(d)
	return t
}

func AfterFunc(d Duration, f func()) *Timer {
	t := &Timer{f: f}
	t.start(d)
	return t
}

func After(d Duration) *vrt.Chan[Time] { return NewTimer(d).C }

func (t *Timer) start(d Duration) {
	t.armed = true
	t.cancel = vrt.AddTimer(d, func() {
		if !t.armed {
			return
		}
		t.armed = false
		if t.f != nil {
			vrt.Go(t.f)
			return
		}
		t.C.TrySend(Now())
	})
}

func (t *Timer) Stop() bool {
	was := t.armed
	t.armed = false
	if t.cancel != nil {
		t.cancel()
	}
	return was
}

func (t *Timer) Reset(d Duration) bool {
	was := t.Stop()
	t.start(d)
	return was
}
