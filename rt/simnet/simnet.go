// Package simnet is the in-memory model of TCP connections that gosim harnesses drive martian through.
// Every operation is a scheduling point of vrt; blocking is expressed as an enabledness predicate, deadlines
// are timers on the virtual clock. Conn has the same method set as *net.TCPConn on Go >= 1.22 as far as
// bufio / io.Copy are concerned (ReadFrom, WriteTo, CloseRead, CloseWrite), so that the standard library
// takes the same code paths as over real sockets.
package simnet

import (
	"errors"
	"fmt"
	"io"
	"net"
	"os"
	"syscall"
	"time"

	"github.com/google/martian/v3/zzverif/vrt"
	"github.com/google/martian/v3/zzverif/vtime"
)

// Addr is a simnet address.
type Addr string

func (a Addr) Network() string { return "tcp" }
func (a Addr) String() string  { return string(a) }

// Op is one entry of a connection's operation log.
type Op struct {
	Tid  int
	Kind string // read, write, close, closewrite, closeread, deadline
	N    int
	Err  string
	At   time.Duration
	Tick int // vrt.Tick() event number
}

type queue struct {
	data          []byte
	cap           int  // 0 = unbounded
	wclosed       bool // writer finished: EOF after data
	rclosed       bool // reader gone: writes are lost / fail
	rstSeen       bool
	resetReported bool // the pending socket error has been returned once (later reads see EOF)
	reset         bool // the writer of this queue aborted the connection (closed with unread data): reader gets ECONNRESET after the queued bytes
	aborted       bool // the writer of this queue sent RST (possibly after a FIN): the reader's own writes and shutdowns fail at once
	total         int  // bytes ever written
	segs          int
}

// Conn is one end of a simulated TCP connection.
type Conn struct {
	Name   string
	in     *queue
	out    *queue
	closed bool
	peer   *Conn
	local  Addr
	remote Addr

	linger         int // SO_LINGER seconds (lingerSet)
	lingerSet      bool
	rdl, wdl       time.Time
	rdlTmr, wdlTmr func()

	// ShortReads makes every Read that could return more than one byte a recorded environment choice
	// (default answer: everything available; deviation: a single byte).
	ShortReads bool
	// FailWriteAfter >= 0 makes the write that crosses that many bytes fail (fault injection).
	FailWriteAfter int
	// Log of operations with the calling thread.
	Ops []Op
	// Written accumulates every byte successfully written by this end (harness convenience).
	Written     []byte
	KeepWritten bool
}

type timeoutError struct{ op string }

func (e *timeoutError) Error() string   { return e.op + ": i/o timeout" }
func (e *timeoutError) Timeout() bool   { return true }
func (e *timeoutError) Temporary() bool { return true }
func (e *timeoutError) Is(err error) bool {
	return err == os.ErrDeadlineExceeded
}

// Pipe returns the two ends of a new connection.
func Pipe(aName, bName string) (*Conn, *Conn) {
	ab := &queue{}
	ba := &queue{}
	a := &Conn{Name: aName, in: ba, out: ab, local: Addr("10.0.0.1:" + fmt.Sprint(40000+vrt.ObjID())), remote: Addr("10.0.0.2:80"), FailWriteAfter: -1}
	b := &Conn{Name: bName, in: ab, out: ba, local: a.remote, remote: a.local, FailWriteAfter: -1}
	a.peer, b.peer = b, a
	return a, b
}

// SetCapacity bounds the number of bytes that may be queued towards the peer (back-pressure); 0 = unbounded.
func (c *Conn) SetCapacity(n int) { c.out.cap = n }

// Peer returns the other end.
func (c *Conn) Peer() *Conn { return c.peer }

// Closed reports whether Close has been called on this end.
func (c *Conn) Closed() bool { return c.closed }

// ClosedBy returns the id of the thread that closed this end (-1 if open).
func (c *Conn) ClosedBy() int {
	for _, o := range c.Ops {
		if o.Kind == "close" {
			return o.Tid
		}
	}
	return -1
}

// WriteClosed reports whether this end has finished sending (Close or CloseWrite).
func (c *Conn) WriteClosed() bool { return c.out.wclosed }

// Buffered returns the number of bytes queued towards this end and not yet read.
func (c *Conn) Buffered() int { return len(c.in.data) }

func (c *Conn) logOp(kind string, n int, err error) {
	o := Op{Tid: vrt.CurID(), Kind: kind, N: n, At: vrt.Now(), Tick: vrt.Tick()}
	if err != nil {
		o.Err = err.Error()
	}
	c.Ops = append(c.Ops, o)
}

func expired(t time.Time) bool { return !t.IsZero() && !vtime.Now().Before(t) }

func (c *Conn) Read(p []byte) (int, error) {
	if len(p) == 0 {
		return 0, nil
	}
	vrt.Block("net.Read "+c.Name, func() bool {
		return len(c.in.data) > 0 || c.in.wclosed || c.in.reset || c.closed || expired(c.rdl)
	})
	if c.closed {
		err := &net.OpError{Op: "read", Net: "tcp", Err: net.ErrClosed}
		c.logOp("read", 0, err)
		return 0, err
	}
	if len(c.in.data) > 0 {
		n := len(c.in.data)
		if n > len(p) {
			n = len(p)
		}
		if c.ShortReads && n > 1 && vrt.Choose(2, "shortread", false) == 1 {
			n = 1
		}
		copy(p, c.in.data[:n])
		c.in.data = c.in.data[n:]
		vrt.Bump()
		c.logOp("read", n, nil)
		return n, nil
	}
	if c.in.reset && !c.in.resetReported {
		c.in.resetReported = true
		err := &net.OpError{Op: "read", Net: "tcp", Err: syscall.ECONNRESET}
		c.logOp("read", 0, err)
		return 0, err
	}
	if c.in.wclosed || c.in.reset {
		c.logOp("read", 0, io.EOF)
		return 0, io.EOF
	}
	err := &net.OpError{Op: "read", Net: "tcp", Err: &timeoutError{"read"}}
	c.logOp("read", 0, err)
	return 0, err
}

func (c *Conn) Write(p []byte) (int, error) {
	vrt.Block("net.Write "+c.Name, func() bool {
		return c.closed || c.out.rclosed || c.out.wclosed || c.out.cap == 0 || len(c.out.data) < c.out.cap || expired(c.wdl)
	})
	if c.closed {
		err := &net.OpError{Op: "write", Net: "tcp", Err: net.ErrClosed}
		c.logOp("write", 0, err)
		return 0, err
	}
	if c.out.wclosed {
		// write after our own CloseWrite
		err := &net.OpError{Op: "write", Net: "tcp", Err: syscall.EPIPE}
		c.logOp("write", 0, err)
		return 0, err
	}
	if c.in.reset || c.in.aborted {
		// the peer aborted the connection (RST already received): writes fail at once
		c.in.resetReported = true
		err := &net.OpError{Op: "write", Net: "tcp", Err: syscall.EPIPE}
		c.logOp("write", 0, err)
		return 0, err
	}
	if c.FailWriteAfter >= 0 && c.out.total+len(p) > c.FailWriteAfter {
		err := &net.OpError{Op: "write", Net: "tcp", Err: syscall.ECONNRESET}
		c.logOp("write", 0, err)
		return 0, err
	}
	if c.out.rclosed {
		// the peer has fully closed: like TCP, the first write is accepted locally (and lost), later ones fail.
		if !c.out.rstSeen {
			c.out.rstSeen = true
			c.out.total += len(p)
			c.logOp("write", len(p), nil)
			return len(p), nil
		}
		err := &net.OpError{Op: "write", Net: "tcp", Err: syscall.EPIPE}
		c.logOp("write", 0, err)
		return 0, err
	}
	if c.out.cap > 0 && len(c.out.data) >= c.out.cap {
		err := &net.OpError{Op: "write", Net: "tcp", Err: &timeoutError{"write"}}
		c.logOp("write", 0, err)
		return 0, err
	}
	c.out.data = append(c.out.data, p...)
	c.out.total += len(p)
	c.out.segs++
	if c.KeepWritten {
		c.Written = append(c.Written, p...)
	}
	vrt.Bump()
	c.logOp("write", len(p), nil)
	return len(p), nil
}

// Close closes both directions.
func (c *Conn) Close() error {
	vrt.Point("net.Close " + c.Name)
	if c.closed {
		err := &net.OpError{Op: "close", Net: "tcp", Err: net.ErrClosed}
		c.logOp("close-again", 0, err)
		return err
	}
	finSent := c.out.wclosed
	c.closed = true
	c.out.wclosed = true
	c.in.rclosed = true
	if c.lingerSet && c.linger == 0 {
		// SO_LINGER 0: close(2) discards whatever is still in the send buffer and sends RST. How much of the
		// written data had already left is up to the network; the model takes the case the option exists for -
		// nothing the peer has not read yet had left - so everything still queued is lost.
		c.out.data = nil
		c.out.aborted = true
		c.out.reset = true
		vrt.Bump()
		c.logOp("close-linger0", 0, nil)
		return nil
	}
	if len(c.in.data) > 0 {
		// closing with unread data makes TCP send RST instead of FIN (if a FIN already went out through
		// CloseWrite the peer still reads EOF first, but its writes fail at once)
		c.out.aborted = true
		if !finSent {
			c.out.reset = true
		}
	}
	vrt.Bump()
	c.logOp("close", 0, nil)
	return nil
}

// Abort closes the connection the way a socket with SO_LINGER 0 (or a crashed process) does: an RST goes out
// instead of a FIN, whatever was still queued is discarded, the peer's pending and later reads fail with
// ECONNRESET and its writes fail at once.
func (c *Conn) Abort() error {
	vrt.Point("net.Abort " + c.Name)
	if c.closed {
		return &net.OpError{Op: "close", Net: "tcp", Err: net.ErrClosed}
	}
	c.closed = true
	c.out.wclosed = true
	c.in.rclosed = true
	c.out.aborted = true
	c.out.reset = true
	vrt.Bump()
	c.logOp("abort", 0, nil)
	return nil
}

// Socket options of *net.TCPConn. Only SO_LINGER changes what the model does (see Close).
func (c *Conn) SetLinger(sec int) error {
	if c.closed {
		return &net.OpError{Op: "set", Net: "tcp", Err: net.ErrClosed}
	}
	c.lingerSet, c.linger = sec >= 0, sec
	c.logOp("setlinger", sec, nil)
	return nil
}
func (c *Conn) SetKeepAlive(bool) error                      { return c.optErr() }
func (c *Conn) SetKeepAlivePeriod(time.Duration) error       { return c.optErr() }
func (c *Conn) SetKeepAliveConfig(net.KeepAliveConfig) error { return c.optErr() }
func (c *Conn) SetNoDelay(bool) error                        { return c.optErr() }
func (c *Conn) SetReadBuffer(int) error                      { return c.optErr() }
func (c *Conn) SetWriteBuffer(int) error                     { return c.optErr() }
func (c *Conn) optErr() error {
	if c.closed {
		return &net.OpError{Op: "set", Net: "tcp", Err: net.ErrClosed}
	}
	return nil
}

// CloseWrite shuts down the sending side (the peer reads EOF after the queued bytes).
func (c *Conn) CloseWrite() error {
	vrt.Point("net.CloseWrite " + c.Name)
	if c.closed {
		return &net.OpError{Op: "close", Net: "tcp", Err: net.ErrClosed}
	}
	if (c.out.wclosed && c.in.wclosed) || c.out.rstSeen || c.in.reset || c.in.aborted {
		// both directions already shut down, or the peer has reset the connection: shutdown(2) fails
		err := &net.OpError{Op: "close", Net: "tcp", Err: syscall.ENOTCONN}
		c.logOp("closewrite", 0, err)
		return err
	}
	c.out.wclosed = true
	vrt.Bump()
	c.logOp("closewrite", 0, nil)
	return nil
}

// CloseRead shuts down the receiving side.
func (c *Conn) CloseRead() error {
	vrt.Point("net.CloseRead " + c.Name)
	if c.closed {
		return &net.OpError{Op: "close", Net: "tcp", Err: net.ErrClosed}
	}
	c.in.rclosed = true
	vrt.Bump()
	c.logOp("closeread", 0, nil)
	return nil
}

func (c *Conn) LocalAddr() net.Addr  { return c.local }
func (c *Conn) RemoteAddr() net.Addr { return c.remote }

func (c *Conn) arm(t time.Time, old *func()) {
	if *old != nil {
		(*old)()
		*old = nil
	}
	if t.IsZero() || !vrt.Active() {
		return
	}
	d := t.Sub(vtime.Now())
	*old = vrt.AddTimer(d, func() {})
}

func (c *Conn) SetDeadline(t time.Time) error {
	if c.closed {
		return &net.OpError{Op: "set", Net: "tcp", Err: net.ErrClosed}
	}
	c.rdl, c.wdl = t, t
	c.arm(t, &c.rdlTmr)
	c.logOp("deadline", 0, nil)
	vrt.Bump()
	return nil
}

func (c *Conn) SetReadDeadline(t time.Time) error {
	if c.closed {
		return &net.OpError{Op: "set", Net: "tcp", Err: net.ErrClosed}
	}
	c.rdl = t
	c.arm(t, &c.rdlTmr)
	c.logOp("deadline", 0, nil)
	vrt.Bump()
	return nil
}

func (c *Conn) SetWriteDeadline(t time.Time) error {
	if c.closed {
		return &net.OpError{Op: "set", Net: "tcp", Err: net.ErrClosed}
	}
	c.wdl = t
	c.arm(t, &c.wdlTmr)
	c.logOp("deadline", 0, nil)
	vrt.Bump()
	return nil
}

type onlyWriter struct{ io.Writer }
type onlyReader struct{ io.Reader }

// ReadFrom mirrors (*net.TCPConn).ReadFrom's generic fallback.
func (c *Conn) ReadFrom(r io.Reader) (int64, error) { return io.Copy(onlyWriter{c}, r) }

// WriteTo mirrors (*net.TCPConn).WriteTo's generic fallback.
func (c *Conn) WriteTo(w io.Writer) (int64, error) { return io.Copy(w, onlyReader{c}) }

// ---- listener ----

// Listener accepts connections created with Dial.
type Listener struct {
	addr    Addr
	pending []*Conn
	closed  bool
	// Accepted lists the server ends handed out by Accept; AcceptTicks their vrt.Tick() event numbers.
	Accepted    []*Conn
	AcceptTicks []int
}

// Listen creates a listener.
func Listen(addr string) *Listener { return &Listener{addr: Addr(addr)} }

func (l *Listener) Accept() (net.Conn, error) {
	vrt.Block("net.Accept", func() bool { return len(l.pending) > 0 || l.closed })
	if l.closed {
		return nil, &net.OpError{Op: "accept", Net: "tcp", Err: net.ErrClosed}
	}
	c := l.pending[0]
	l.pending = l.pending[1:]
	l.Accepted = append(l.Accepted, c)
	l.AcceptTicks = append(l.AcceptTicks, vrt.Tick())
	vrt.Bump()
	return c, nil
}

func (l *Listener) Close() error {
	vrt.Point("net.Listener.Close")
	if l.closed {
		return &net.OpError{Op: "close", Net: "tcp", Err: net.ErrClosed}
	}
	l.closed = true
	// connections still in the backlog are reset
	for _, c := range l.pending {
		c.closed = true
		c.out.wclosed = true
		c.in.rclosed = true
	}
	l.pending = nil
	vrt.Bump()
	return nil
}

func (l *Listener) Addr() net.Addr { return l.addr }

// ErrRefused is returned by Dial on a closed listener.
var ErrRefused = &net.OpError{Op: "dial", Net: "tcp", Err: syscall.ECONNREFUSED}

// Dial connects to the listener and returns the client end (the server end is queued for Accept).
func (l *Listener) Dial(name string) (*Conn, error) {
	vrt.Point("net.Dial " + name)
	if l.closed {
		return nil, ErrRefused
	}
	cl, sv := Pipe(name, name+"@srv")
	sv.local = l.addr
	cl.remote = l.addr
	l.pending = append(l.pending, sv)
	vrt.Bump()
	return cl, nil
}

// IsTimeout reports whether err is a deadline error.
func IsTimeout(err error) bool {
	var ne net.Error
	return errors.As(err, &ne) && ne.Timeout()
}
