// Package vtls replaces "crypto/tls" in the rewritten h2 package only: it is the missing dial seam of
// h2.Config.Proxy. Dial asks the harness for the upstream connection instead of opening a TCP+TLS one.
package vtls

import (
	"crypto/tls"
	"errors"
	"net"
)

type (
	Config          = tls.Config
	Conn            = tls.Conn
	Certificate     = tls.Certificate
	ConnectionState = tls.ConnectionState
	ClientHelloInfo = tls.ClientHelloInfo
)

// DialHook is installed by the harness; it returns the proxy's end of the upstream connection.
var DialHook func(network, addr string, cfg *Config) (net.Conn, error)

// Dial mirrors tls.Dial but returns whatever connection the harness supplies.
func Dial(network, addr string, cfg *Config) (net.Conn, error) {
	if DialHook == nil {
		return nil, errors.New("vtls: no dial hook installed")
	}
	return DialHook(network, addr, cfg)
}

func Server(c net.Conn, cfg *Config) *Conn { return tls.Server(c, cfg) }
func Client(c net.Conn, cfg *Config) *Conn { return tls.Client(c, cfg) }
