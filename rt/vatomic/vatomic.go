// Package vatomic replaces "sync/atomic" in rewritten martian sources: each operation is a scheduling
// point followed by the real atomic operation; loads are poll points (spin-loop detection).
package vatomic

import (
	"sync/atomic"
	"unsafe"

	"github.com/google/martian/v3/zzverif/vrt"
)

type Value = atomic.Value

func w(op string) { vrt.Point(op); vrt.Bump() }
func r(op string) { vrt.Poll(op, vrt.Site(3)) }

func LoadInt32(p *int32) int32                     { r("atomic.Load"); return atomic.LoadInt32(p) }
func LoadInt64(p *int64) int64                     { r("atomic.Load"); return atomic.LoadInt64(p) }
func LoadUint32(p *uint32) uint32                  { r("atomic.Load"); return atomic.LoadUint32(p) }
func LoadUint64(p *uint64) uint64                  { r("atomic.Load"); return atomic.LoadUint64(p) }
func LoadUintptr(p *uintptr) uintptr               { r("atomic.Load"); return atomic.LoadUintptr(p) }
func LoadPointer(p *unsafe.Pointer) unsafe.Pointer { r("atomic.Load"); return atomic.LoadPointer(p) }

func StoreInt32(p *int32, v int32)       { w("atomic.Store"); atomic.StoreInt32(p, v) }
func StoreInt64(p *int64, v int64)       { w("atomic.Store"); atomic.StoreInt64(p, v) }
func StoreUint32(p *uint32, v uint32)    { w("atomic.Store"); atomic.StoreUint32(p, v) }
func StoreUint64(p *uint64, v uint64)    { w("atomic.Store"); atomic.StoreUint64(p, v) }
func StoreUintptr(p *uintptr, v uintptr) { w("atomic.Store"); atomic.StoreUintptr(p, v) }
func StorePointer(p *unsafe.Pointer, v unsafe.Pointer) {
	w("atomic.Store")
	atomic.StorePointer(p, v)
}

func AddInt32(p *int32, d int32) int32         { w("atomic.Add"); return atomic.AddInt32(p, d) }
func AddInt64(p *int64, d int64) int64         { w("atomic.Add"); return atomic.AddInt64(p, d) }
func AddUint32(p *uint32, d uint32) uint32     { w("atomic.Add"); return atomic.AddUint32(p, d) }
func AddUint64(p *uint64, d uint64) uint64     { w("atomic.Add"); return atomic.AddUint64(p, d) }
func AddUintptr(p *uintptr, d uintptr) uintptr { w("atomic.Add"); return atomic.AddUintptr(p, d) }

func SwapInt32(p *int32, v int32) int32     { w("atomic.Swap"); return atomic.SwapInt32(p, v) }
func SwapInt64(p *int64, v int64) int64     { w("atomic.Swap"); return atomic.SwapInt64(p, v) }
func SwapUint32(p *uint32, v uint32) uint32 { w("atomic.Swap"); return atomic.SwapUint32(p, v) }
func SwapUint64(p *uint64, v uint64) uint64 { w("atomic.Swap"); return atomic.SwapUint64(p, v) }

func CompareAndSwapInt32(p *int32, o, n int32) bool {
	w("atomic.CAS")
	return atomic.CompareAndSwapInt32(p, o, n)
}
func CompareAndSwapInt64(p *int64, o, n int64) bool {
	w("atomic.CAS")
	return atomic.CompareAndSwapInt64(p, o, n)
}
func CompareAndSwapUint32(p *uint32, o, n uint32) bool {
	w("atomic.CAS")
	return atomic.CompareAndSwapUint32(p, o, n)
}
func CompareAndSwapUint64(p *uint64, o, n uint64) bool {
	w("atomic.CAS")
	return atomic.CompareAndSwapUint64(p, o, n)
}
