// vrewrite instruments martian for gosim without touching /repo: it loads the packages of /repo's
// working tree, rewrites every non-test file that uses sync, sync/atomic, time, goroutines, channels or
// select into a copy under <out>/ov, mounts the runtime packages of /verif/rt (and optional add-only hook
// files) as virtual directories of the martian module, and writes a `go build -overlay` file.
//
// Any channel construct it does not know how to rewrite is a hard error: nothing may silently run
// uninstrumented.
package main

import (
	"bytes"
	"encoding/json"
	"flag"
	"fmt"
	"go/ast"
	"go/printer"
	"go/token"
	"go/types"
	"os"
	"path/filepath"
	"sort"
	"strconv"
	"strings"

	"golang.org/x/tools/go/ast/astutil"
	"golang.org/x/tools/go/packages"
)

const modPath = "github.com/google/martian/v3"

var (
	repo    = flag.String("repo", "/repo", "martian working tree")
	rtDir   = flag.String("rt", "/verif/rt", "runtime packages to mount under <repo>/zzverif")
	hookDir = flag.String("hooks", "", "directory of add-only files to mount (paths relative to repo root)")
	outDir  = flag.String("out", "", "output directory (overlay.json and ov/)")
	norw    = flag.Bool("norewrite", false, "only mount rt and hooks, do not rewrite sources")
	exclude = flag.String("exclude", "log,nosigpipe,cmd/,mobile,h2/testing,h2/testservice,zzverif", "comma separated package path prefixes (relative to module) left untouched")
)

func fatal(format string, args ...interface{}) {
	fmt.Fprintf(os.Stderr, "vrewrite: "+format+"\n", args...)
	os.Exit(2)
}

func main() {
	flag.Parse()
	if *outDir == "" {
		fatal("-out required")
	}
	for _, p := range []*string{outDir, rtDir, hookDir, repo} {
		if *p != "" {
			a, err := filepath.Abs(*p)
			if err != nil {
				fatal("%v", err)
			}
			*p = a
		}
	}
	overlay := map[string]string{}
	os.RemoveAll(filepath.Join(*outDir, "ov"))
	if err := os.MkdirAll(filepath.Join(*outDir, "ov"), 0o755); err != nil {
		fatal("%v", err)
	}
	// mount runtime packages
	filepath.Walk(*rtDir, func(p string, fi os.FileInfo, err error) error {
		if err != nil || fi.IsDir() || !strings.HasSuffix(p, ".go") || strings.HasSuffix(p, "_test.go") {
			return nil
		}
		rel, _ := filepath.Rel(*rtDir, p)
		overlay[filepath.Join(*repo, "zzverif", rel)] = p
		return nil
	})
	if *hookDir != "" {
		filepath.Walk(*hookDir, func(p string, fi os.FileInfo, err error) error {
			if err != nil || fi.IsDir() || !strings.HasSuffix(p, ".go") {
				return nil
			}
			rel, _ := filepath.Rel(*hookDir, p)
			dst := filepath.Join(*repo, rel)
			if _, err := os.Stat(dst); err == nil {
				fatal("hook file %s would replace an existing repository file (hooks are add-only)", rel)
			}
			overlay[dst] = p
			return nil
		})
	}
	nfiles := 0
	if !*norw {
		nfiles = rewriteAll(overlay)
	}
	b, _ := json.MarshalIndent(map[string]interface{}{"Replace": overlay}, "", " ")
	if err := os.WriteFile(filepath.Join(*outDir, "overlay.json"), b, 0o644); err != nil {
		fatal("%v", err)
	}
	fmt.Printf("vrewrite: %d files rewritten, %d overlay entries\n", nfiles, len(overlay))
}

func excluded(rel string) bool {
	for _, e := range strings.Split(*exclude, ",") {
		e = strings.TrimSpace(e)
		if e == "" {
			continue
		}
		if rel == strings.TrimSuffix(e, "/") || strings.HasPrefix(rel, strings.TrimSuffix(e, "/")+"/") {
			return true
		}
	}
	return false
}

func rewriteAll(overlay map[string]string) int {
	cfg := &packages.Config{
		Mode: packages.NeedName | packages.NeedSyntax | packages.NeedTypes | packages.NeedTypesInfo | packages.NeedFiles | packages.NeedCompiledGoFiles | packages.NeedImports | packages.NeedDeps,
		Dir:  *repo,
		Env:  append(os.Environ(), "GOFLAGS=-mod=mod", "GOPROXY=off", "GOSUMDB=off"),
	}
	pkgs, err := packages.Load(cfg, "./...")
	if err != nil {
		fatal("load: %v", err)
	}
	n := 0
	sort.Slice(pkgs, func(i, j int) bool { return pkgs[i].PkgPath < pkgs[j].PkgPath })
	for _, p := range pkgs {
		rel := strings.TrimPrefix(strings.TrimPrefix(p.PkgPath, modPath), "/")
		if excluded(rel) {
			continue
		}
		if len(p.Errors) > 0 {
			fatal("package %s has errors: %v", p.PkgPath, p.Errors)
		}
		for i, f := range p.Syntax {
			name := p.CompiledGoFiles[i]
			if strings.HasSuffix(name, "_test.go") || !strings.HasPrefix(name, *repo) {
				continue
			}
			rw := &rewriter{pkg: p, file: f, fset: p.Fset, name: name}
			if !rw.run() {
				continue
			}
			var buf bytes.Buffer
			if err := (&printer.Config{Mode: printer.UseSpaces | printer.TabIndent, Tabwidth: 8}).Fprint(&buf, p.Fset, f); err != nil {
				fatal("print %s: %v", name, err)
			}
			relf, _ := filepath.Rel(*repo, name)
			dst := filepath.Join(*outDir, "ov", relf)
			os.MkdirAll(filepath.Dir(dst), 0o755)
			if err := os.WriteFile(dst, buf.Bytes(), 0o644); err != nil {
				fatal("%v", err)
			}
			overlay[name] = dst
			n++
		}
	}
	return n
}

type rewriter struct {
	pkg     *packages.Package
	file    *ast.File
	fset    *token.FileSet
	name    string
	changed bool
	needVrt bool
	needNet string // local name of package net when *net.TCPConn was mapped onto *simnet.Conn
	ctr     int

	chanLenCap map[*ast.CallExpr]string // len/cap on channels
	closeCalls map[*ast.CallExpr]bool
	rangeKind  map[*ast.RangeStmt]string // "chan", "map"
	recv2      map[*ast.UnaryExpr]bool   // receive used in a 2-value context
	commStmts  map[ast.Stmt]bool         // communication statements of select cases
}

func (rw *rewriter) pos(n ast.Node) string { return rw.fset.Position(n.Pos()).String() }

func (rw *rewriter) fail(n ast.Node, msg string) {
	fatal("%s: %s", rw.pos(n), msg)
}

const vrtName = "vrt_"
const simnetName = "simnet_"

func sel(x, s string) ast.Expr { return &ast.SelectorExpr{X: ast.NewIdent(x), Sel: ast.NewIdent(s)} }

func call(fun ast.Expr, args ...ast.Expr) *ast.CallExpr { return &ast.CallExpr{Fun: fun, Args: args} }

func method(x ast.Expr, name string, args ...ast.Expr) *ast.CallExpr {
	return call(&ast.SelectorExpr{X: x, Sel: ast.NewIdent(name)}, args...)
}

func (rw *rewriter) tmp(prefix string) string {
	rw.ctr++
	return fmt.Sprintf("_%s%d", prefix, rw.ctr)
}

func isChan(t types.Type) bool {
	if t == nil {
		return false
	}
	_, ok := t.Underlying().(*types.Chan)
	return ok
}

func unparen(e ast.Expr) ast.Expr {
	for {
		p, ok := e.(*ast.ParenExpr)
		if !ok {
			return e
		}
		e = p.X
	}
}

func (rw *rewriter) run() bool {
	info := rw.pkg.TypesInfo
	rw.chanLenCap = map[*ast.CallExpr]string{}
	rw.closeCalls = map[*ast.CallExpr]bool{}
	rw.rangeKind = map[*ast.RangeStmt]string{}
	rw.recv2 = map[*ast.UnaryExpr]bool{}
	rw.commStmts = map[ast.Stmt]bool{}

	// imports
	for _, imp := range rw.file.Imports {
		path, _ := strconv.Unquote(imp.Path.Value)
		var repl, def string
		switch path {
		case "sync":
			repl, def = modPath+"/zzverif/vsync", "sync"
		case "sync/atomic":
			repl, def = modPath+"/zzverif/vatomic", "atomic"
		case "time":
			repl, def = modPath+"/zzverif/vtime", "time"
		case "crypto/tls":
			// only the h2 package: its tls.Dial is the upstream dial of Config.Proxy (no other seam exists)
			if rw.pkg.PkgPath == modPath+"/h2" {
				repl, def = modPath+"/zzverif/vtls", "tls"
			}
		}
		if repl == "" {
			continue
		}
		if imp.Name != nil && (imp.Name.Name == "_" || imp.Name.Name == ".") {
			rw.fail(imp, "unsupported import form for "+path)
		}
		if imp.Name == nil {
			imp.Name = ast.NewIdent(def)
		}
		imp.Path = &ast.BasicLit{Kind: token.STRING, Value: strconv.Quote(repl)}
		imp.EndPos = 0
		rw.changed = true
	}

	// pre-pass: type dependent decisions on the original nodes
	ast.Inspect(rw.file, func(n ast.Node) bool {
		switch x := n.(type) {
		case *ast.CallExpr:
			if id, ok := unparen(x.Fun).(*ast.Ident); ok {
				if _, isB := info.Uses[id].(*types.Builtin); isB {
					switch id.Name {
					case "close":
						rw.closeCalls[x] = true
					case "len", "cap":
						if len(x.Args) == 1 && isChan(info.TypeOf(x.Args[0])) {
							rw.chanLenCap[x] = id.Name
						}
					}
				}
			}
		case *ast.RangeStmt:
			t := info.TypeOf(x.X)
			if t != nil {
				switch u := t.Underlying().(type) {
				case *types.Chan:
					rw.rangeKind[x] = "chan"
				case *types.Map:
					if b, ok := u.Key().Underlying().(*types.Basic); ok && b.Info()&(types.IsOrdered) != 0 {
						rw.rangeKind[x] = "map"
					}
				}
			}
		case *ast.CommClause:
			if x.Comm != nil {
				rw.commStmts[x.Comm] = true
			}
		case *ast.AssignStmt:
			if len(x.Lhs) == 2 && len(x.Rhs) == 1 {
				if u, ok := unparen(x.Rhs[0]).(*ast.UnaryExpr); ok && u.Op == token.ARROW {
					rw.recv2[u] = true
				}
			}
		case *ast.ValueSpec:
			if len(x.Names) == 2 && len(x.Values) == 1 {
				if u, ok := unparen(x.Values[0]).(*ast.UnaryExpr); ok && u.Op == token.ARROW {
					rw.recv2[u] = true
				}
			}
		}
		return true
	})

	astutil.Apply(rw.file, nil, rw.post)

	// comments are positioned by offset and would be interleaved wrongly with synthesised nodes: keep
	// only what precedes the package clause (build constraints).
	var keep []*ast.CommentGroup
	for _, cg := range rw.file.Comments {
		if cg.End() < rw.file.Package {
			keep = append(keep, cg)
		}
	}
	if rw.changed || rw.needVrt {
		rw.file.Comments = keep
	}

	if rw.needVrt {
		astutil.AddNamedImport(rw.fset, rw.file, vrtName, modPath+"/zzverif/vrt")
		rw.changed = true
	}
	if rw.needNet != "" {
		astutil.AddNamedImport(rw.fset, rw.file, simnetName, modPath+"/zzverif/simnet")
		// the file may have imported net for TCPConn only
		rw.file.Decls = append(rw.file.Decls, &ast.GenDecl{Tok: token.VAR, Specs: []ast.Spec{&ast.ValueSpec{
			Names: []*ast.Ident{ast.NewIdent("_")}, Type: sel(rw.needNet, "Conn")}}})
		rw.changed = true
	}
	return rw.changed
}

func (rw *rewriter) chanType(elem ast.Expr) ast.Expr {
	rw.needVrt = true
	return &ast.StarExpr{X: &ast.IndexExpr{X: sel(vrtName, "Chan"), Index: elem}}
}

// post is applied bottom-up: children have already been rewritten.
func (rw *rewriter) post(c *astutil.Cursor) bool {
	switch x := c.Node().(type) {
	case *ast.SelectorExpr:
		// *net.TCPConn (type assertions, conversions, declarations): every connection of the closed world is a
		// *simnet.Conn, which has the socket-option methods of *net.TCPConn
		if id, ok := x.X.(*ast.Ident); ok && x.Sel.Name == "TCPConn" {
			if pn, ok := rw.pkg.TypesInfo.Uses[id].(*types.PkgName); ok && pn.Imported().Path() == "net" {
				rw.needNet = id.Name
				c.Replace(sel(simnetName, "Conn"))
			}
		}
	case *ast.ChanType:
		c.Replace(rw.chanType(x.Value))
	case *ast.CallExpr:
		if rw.closeCalls[x] {
			if len(x.Args) != 1 {
				rw.fail(x, "close with != 1 args")
			}
			c.Replace(method(x.Args[0], "Close"))
			return true
		}
		if k, ok := rw.chanLenCap[x]; ok {
			name := "Len"
			if k == "cap" {
				name = "Cap"
			}
			c.Replace(method(x.Args[0], name))
			return true
		}
		// make(chan T, n): the ChanType child has already been replaced by *vrt_.Chan[T]
		if id, ok := x.Fun.(*ast.Ident); ok && id.Name == "make" && len(x.Args) >= 1 {
			if st, ok := x.Args[0].(*ast.StarExpr); ok {
				if ix, ok := st.X.(*ast.IndexExpr); ok {
					if s, ok := ix.X.(*ast.SelectorExpr); ok {
						if xi, ok := s.X.(*ast.Ident); ok && xi.Name == vrtName && s.Sel.Name == "Chan" {
							c.Replace(call(&ast.IndexExpr{X: sel(vrtName, "MakeChan"), Index: ix.Index}, x.Args[1:]...))
							return true
						}
					}
				}
			}
			// make(T) where T is a named channel type
			if t := rw.pkg.TypesInfo.TypeOf(x); isChan(t) {
				rw.fail(x, "make of a named channel type is not supported by the rewriter")
			}
		}
	case *ast.SendStmt:
		rw.needVrt = true
		if _, inComm := c.Parent().(*ast.CommClause); inComm && c.Name() == "Comm" {
			return true // handled by the select rewrite
		}
		c.Replace(&ast.ExprStmt{X: method(x.Chan, "Send", x.Value)})
	case *ast.UnaryExpr:
		if x.Op != token.ARROW {
			return true
		}
		rw.needVrt = true
		if rw.inCommHead(c) {
			return true
		}
		if rw.recv2[x] {
			c.Replace(method(x.X, "Recv2"))
		} else {
			c.Replace(method(x.X, "Recv"))
		}
	case *ast.GoStmt:
		rw.needVrt = true
		c.Replace(rw.goStmt(x))
	case *ast.SelectStmt:
		rw.needVrt = true
		if _, labeled := c.Parent().(*ast.LabeledStmt); labeled {
			rw.fail(x, "labeled select is not supported by the rewriter")
		}
		c.Replace(rw.selectStmt(x))
	case *ast.RangeStmt:
		if _, labeled := c.Parent().(*ast.LabeledStmt); labeled && rw.rangeKind[x] != "" {
			if rw.rangeKind[x] == "chan" {
				rw.fail(x, "labeled range over channel is not supported by the rewriter")
			}
			fmt.Fprintf(os.Stderr, "vrewrite: warning: %s: labeled range over map left in runtime order\n", rw.pos(x))
			return true
		}
		switch rw.rangeKind[x] {
		case "chan":
			rw.needVrt = true
			c.Replace(rw.rangeChan(x))
		case "map":
			if r := rw.rangeMap(x); r != nil {
				rw.needVrt = true
				c.Replace(r)
			}
		}
	}
	return true
}

// inCommHead reports whether the receive expression at the cursor is the communication of a select case
// (those are rewritten together with their select statement).
func (rw *rewriter) inCommHead(c *astutil.Cursor) bool {
	switch p := c.Parent().(type) {
	case *ast.ExprStmt:
		return rw.commStmts[p]
	case *ast.AssignStmt:
		return rw.commStmts[p]
	}
	return false
}

func (rw *rewriter) goStmt(g *ast.GoStmt) ast.Stmt {
	callx := g.Call
	if fl, ok := callx.Fun.(*ast.FuncLit); ok && len(callx.Args) == 0 {
		return &ast.ExprStmt{X: call(sel(vrtName, "Go"), fl)}
	}
	// evaluate function value and arguments now, call later
	var stmts []ast.Stmt
	fn := rw.tmp("gf")
	stmts = append(stmts, &ast.AssignStmt{Lhs: []ast.Expr{ast.NewIdent(fn)}, Tok: token.DEFINE, Rhs: []ast.Expr{callx.Fun}})
	var args []ast.Expr
	for _, a := range callx.Args {
		an := rw.tmp("ga")
		stmts = append(stmts, &ast.AssignStmt{Lhs: []ast.Expr{ast.NewIdent(an)}, Tok: token.DEFINE, Rhs: []ast.Expr{a}})
		args = append(args, ast.NewIdent(an))
	}
	inner := &ast.CallExpr{Fun: ast.NewIdent(fn), Args: args}
	if callx.Ellipsis.IsValid() {
		inner.Ellipsis = 1
	}
	lit := &ast.FuncLit{Type: &ast.FuncType{Params: &ast.FieldList{}}, Body: &ast.BlockStmt{List: []ast.Stmt{&ast.ExprStmt{X: inner}}}}
	stmts = append(stmts, &ast.ExprStmt{X: call(sel(vrtName, "Go"), lit)})
	return &ast.BlockStmt{List: stmts}
}

func intLit(i int) ast.Expr { return &ast.BasicLit{Kind: token.INT, Value: strconv.Itoa(i)} }

func (rw *rewriter) selectStmt(s *ast.SelectStmt) ast.Stmt {
	sv := rw.tmp("sel")
	hasDefault := false
	for _, cl := range s.Body.List {
		if cl.(*ast.CommClause).Comm == nil {
			hasDefault = true
		}
	}
	var pre []ast.Stmt
	hd := "false"
	if hasDefault {
		hd = "true"
	}
	pre = append(pre, &ast.AssignStmt{Lhs: []ast.Expr{ast.NewIdent(sv)}, Tok: token.DEFINE, Rhs: []ast.Expr{call(sel(vrtName, "NewSelect"), ast.NewIdent(hd))}})
	sw := &ast.SwitchStmt{Body: &ast.BlockStmt{}}
	var recvHandles []ast.Expr
	idx := 0
	for _, cl := range s.Body.List {
		cc := cl.(*ast.CommClause)
		if cc.Comm == nil {
			sw.Body.List = append(sw.Body.List, &ast.CaseClause{List: nil, Body: cc.Body})
			continue
		}
		var head []ast.Stmt
		switch cm := cc.Comm.(type) {
		case *ast.SendStmt:
			pre = append(pre, &ast.ExprStmt{X: method(cm.Chan, "CaseSendOn", ast.NewIdent(sv), cm.Value)})
		case *ast.ExprStmt:
			u, ok := unparen(cm.X).(*ast.UnaryExpr)
			if !ok || u.Op != token.ARROW {
				rw.fail(cm, "unsupported select case")
			}
			h := rw.tmp("rc")
			pre = append(pre, &ast.AssignStmt{Lhs: []ast.Expr{ast.NewIdent(h)}, Tok: token.DEFINE, Rhs: []ast.Expr{call(sel(vrtName, "CaseRecv"), ast.NewIdent(sv), u.X)}})
			recvHandles = append(recvHandles, ast.NewIdent(h))
		case *ast.AssignStmt:
			if len(cm.Rhs) != 1 {
				rw.fail(cm, "unsupported select case")
			}
			u, ok := unparen(cm.Rhs[0]).(*ast.UnaryExpr)
			if !ok || u.Op != token.ARROW {
				rw.fail(cm, "unsupported select case")
			}
			h := rw.tmp("rc")
			pre = append(pre, &ast.AssignStmt{Lhs: []ast.Expr{ast.NewIdent(h)}, Tok: token.DEFINE, Rhs: []ast.Expr{call(sel(vrtName, "CaseRecv"), ast.NewIdent(sv), u.X)}})
			recvHandles = append(recvHandles, ast.NewIdent(h))
			m := "Value"
			if len(cm.Lhs) == 2 {
				m = "Value2"
			}
			head = append(head, &ast.AssignStmt{Lhs: cm.Lhs, Tok: cm.Tok, Rhs: []ast.Expr{method(ast.NewIdent(h), m)}})
		default:
			rw.fail(cc, "unsupported select case")
		}
		sw.Body.List = append(sw.Body.List, &ast.CaseClause{List: []ast.Expr{intLit(idx)}, Body: append(head, cc.Body...)})
		idx++
	}
	sw.Tag = method(ast.NewIdent(sv), "Wait", recvHandles...)
	return &ast.BlockStmt{List: append(pre, sw)}
}

func (rw *rewriter) rangeChan(r *ast.RangeStmt) ast.Stmt {
	if r.Value != nil {
		rw.fail(r, "range over channel with two variables")
	}
	okv := rw.tmp("ok")
	var lhs ast.Expr = ast.NewIdent("_")
	tok := token.DEFINE
	if r.Key != nil {
		lhs = r.Key
		tok = r.Tok
	}
	if tok == token.ASSIGN {
		// v, ok = ch.Recv2() needs ok declared
		body := []ast.Stmt{
			&ast.DeclStmt{Decl: &ast.GenDecl{Tok: token.VAR, Specs: []ast.Spec{&ast.ValueSpec{Names: []*ast.Ident{ast.NewIdent(okv)}, Type: ast.NewIdent("bool")}}}},
			&ast.AssignStmt{Lhs: []ast.Expr{lhs, ast.NewIdent(okv)}, Tok: token.ASSIGN, Rhs: []ast.Expr{method(r.X, "Recv2")}},
			&ast.IfStmt{Cond: &ast.UnaryExpr{Op: token.NOT, X: ast.NewIdent(okv)}, Body: &ast.BlockStmt{List: []ast.Stmt{&ast.BranchStmt{Tok: token.BREAK}}}},
		}
		return &ast.ForStmt{Body: &ast.BlockStmt{List: append(body, r.Body.List...)}}
	}
	body := []ast.Stmt{
		&ast.AssignStmt{Lhs: []ast.Expr{lhs, ast.NewIdent(okv)}, Tok: token.DEFINE, Rhs: []ast.Expr{method(r.X, "Recv2")}},
		&ast.IfStmt{Cond: &ast.UnaryExpr{Op: token.NOT, X: ast.NewIdent(okv)}, Body: &ast.BlockStmt{List: []ast.Stmt{&ast.BranchStmt{Tok: token.BREAK}}}},
	}
	return &ast.ForStmt{Body: &ast.BlockStmt{List: append(body, r.Body.List...)}}
}

// rangeMap turns `for k, v := range m` into an iteration over the sorted keys, so that map iteration
// order is owned by the harness instead of the runtime's random seed.
func (rw *rewriter) rangeMap(r *ast.RangeStmt) ast.Stmt {
	if r.Tok != token.DEFINE || r.Key == nil {
		return nil
	}
	mv := rw.tmp("m")
	kv := rw.tmp("k")
	keyIsBlank := false
	if id, ok := r.Key.(*ast.Ident); ok && id.Name == "_" {
		keyIsBlank = true
	}
	var body []ast.Stmt
	valIsBlank := r.Value == nil
	if id, ok := r.Value.(*ast.Ident); ok && id.Name == "_" {
		valIsBlank = true
	}
	okv := rw.tmp("ok")
	var vl ast.Expr = ast.NewIdent("_")
	if !valIsBlank {
		vl = r.Value
	}
	// v, ok := m[k]; if !ok { continue }  (entries deleted during the iteration are skipped, like the runtime)
	body = append(body,
		&ast.AssignStmt{Lhs: []ast.Expr{vl, ast.NewIdent(okv)}, Tok: token.DEFINE, Rhs: []ast.Expr{&ast.IndexExpr{X: ast.NewIdent(mv), Index: ast.NewIdent(kv)}}},
		&ast.IfStmt{Cond: &ast.UnaryExpr{Op: token.NOT, X: ast.NewIdent(okv)}, Body: &ast.BlockStmt{List: []ast.Stmt{&ast.BranchStmt{Tok: token.CONTINUE}}}},
	)
	if !keyIsBlank {
		body = append(body, &ast.AssignStmt{Lhs: []ast.Expr{r.Key}, Tok: token.DEFINE, Rhs: []ast.Expr{ast.NewIdent(kv)}},
			&ast.AssignStmt{Lhs: []ast.Expr{ast.NewIdent("_")}, Tok: token.ASSIGN, Rhs: []ast.Expr{r.Key}})
	}
	loop := &ast.RangeStmt{Key: ast.NewIdent("_"), Value: ast.NewIdent(kv), Tok: token.DEFINE, X: call(sel(vrtName, "SortedKeys"), ast.NewIdent(mv)),
		Body: &ast.BlockStmt{List: append(body, r.Body.List...)}}
	return &ast.BlockStmt{List: []ast.Stmt{
		&ast.AssignStmt{Lhs: []ast.Expr{ast.NewIdent(mv)}, Tok: token.DEFINE, Rhs: []ast.Expr{r.X}},
		loop,
	}}
}
