package main

import (
	"fmt"

	"github.com/google/martian/v3/har"
)

func main() {
	l := har.NewLogger()
	fmt.Println(l != nil)
}
