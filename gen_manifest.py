#!/usr/bin/env python3
"""Regenerates MANIFEST.json from the table below (keeps it valid at all times)."""
import json, os
ROOT = os.path.dirname(os.path.abspath(__file__))
props = [json.loads(l) for l in open(os.path.join(ROOT, "properties.jsonl"))]

# id -> (level category, level text, note, technique, engine, design_ref)
CHECKS = {
 "C08": ("model_checking",
         "The real h2 relay (Config.Proxy; tls.Dial replaced by a dial seam) runs between two frame-level endpoints over simnet under the gosim scheduler: all single-stream lifecycle shapes (1..3 header fragments x priority x padded/unpadded/empty DATA shapes x END_STREAM/trailers/RST/open) in both directions, duplex pairs with schedule exploration, all interleavings of two/three streams' lifecycles, byte-level transport segmentations and preface splits (with schedule exploration), receiver windows that block DATA while trailers and other streams' header blocks are pending, PUSH_PROMISE, PRIORITY, SETTINGS/PING/GOAWAY, HPACK table scenarios; oracle: per stream and direction the receiver's events (header blocks decoded with its own HPACK decoder in arrival order, DATA boundary-insensitive) equal the sender's.",
         "Endpoints use the same x/net Framer as the relay; K<=3 streams; default schedule for pure input families, <=1/2 deviations elsewhere.",
         "bounded-exhaustive frame-script enumeration + stateless schedule enumeration of the implementation (gosim)", "gosim", "DESIGN.md §7 C08"),
 "C09": ("model_checking",
         "Explicit-state search over environment event histories on the real h2 relay: after a fixed opening every history of DATA (sizes 0..40000, padded or not, END_STREAM) / SETTINGS(INITIAL_WINDOW_SIZE, MAX_FRAME_SIZE) / WINDOW_UPDATE(stream or connection) events up to depth 3-5 is replayed on a fresh relay from receiver windows {0,2,default} in both directions, each event followed by run-to-quiescence; invariants I1 (never exceed stream/connection credit), I2 (max frame size), I3 (exact credit returned, padding included), I4 (no stranding at frame granularity) are evaluated in every reached ledger state; plus concurrent DATA/WINDOW_UPDATE scripts under schedule exploration.",
         "2 streams; alphabet sizes/increments; MAX_FRAME_SIZE only raised; no state deduplication (every history replayed).",
         "explicit-state search over event histories on the implementation (gosim) + schedule enumeration", "gosim", "DESIGN.md §7 C09"),
 "C10": ("model_checking",
         "The real h2.Config.Proxy runs between two frame-level endpoints (which close their side on EOF/error like real peers) over simnet under the gosim scheduler: 7 terminating events (client closes, server closes, write failure toward either side, malformed frame from either side, proxy shutdown) x 5 session states (idle, mid-stream, DATA blocked on a zero window with trailers queued, output channel full because the server stopped reading, and its mirror image with a stalled client) + bad preface + dial error; every schedule with <=2 deviations (thorough: <=3 in the idle and set-up states, <=2 in the flooded states where quick has <=1); oracle at the first quiescent point with zero virtual time elapsed: Proxy returned, its upstream connection is closed, no thread spawned by the session is alive.",
         "TLS replaced by the dial seam (no close_notify); a peer that stopped reading never closes.",
         "stateless schedule/fault enumeration of the implementation (gosim)", "gosim", "DESIGN.md §7 C10"),
 "C11": ("model_checking",
         "Exhaustive enumeration of gRPC message sequences (length 0..2/3 over sizes {0,1,5,300,70000}) x compressed flag x encoding {identity, gzip, deflate, snappy} x END_STREAM placement x direction x ALL 2^(L-1) cut-point sets of the length-prefixed byte stream for L<=12/14 and all <=3-cut sets over boundary-focused positions for longer streams x gRPC / non-gRPC content types, driven through the real grpc adapter/emitter pair (hook h2.NewProcessorsForVerif, add-only, tag verif); oracles: a recording processor sees exactly the decompressed messages; a pass-through processor yields the same messages in the same wire format at the sink (independent parser and decoders), END_STREAM exactly once and last; non-gRPC streams byte-identical.",
         "Cut sets for long streams restricted to boundary-focused positions; one stream at a time.",
         "bounded-exhaustive input enumeration (all cut-point sets) against a reference model", "enum", "DESIGN.md §7 C11"),
 "C12": ("model_checking",
         "Program enumeration: every configuration tree with up to 3-5 (quick) / 4-6 (thorough) nodes over probe leaves, erroring leaves, state-changing leaves, fifo.Group (aggregating or not), priority.Group (priorities {0,1}), url/header/querystring/method/cookie filters with modifier and optional else, and 6 scope forms at every node, is rendered to JSON, parsed by the real parse.FromJSON and evaluated on requests and responses for every truth assignment of its filter conditions, against a reference interpreter written from the statement (trace order, error multiset, state); every node is also replaced by unknown names, unsupported/unimplemented scopes and syntactic corruptions (every prefix for small documents) and POSTed to a long-lived martianhttp.Modifier: 400, previous configuration fully in force, accepted ones replace completely.",
         "Reduced alphabets for the larger sizes; well-formed JSON of the wrong type not examined.",
         "bounded-exhaustive program (configuration tree) enumeration against a reference interpreter", "enum", "DESIGN.md §7 C12"),
 "C13": ("model_checking",
         "Part 1: every verifier-bearing configuration tree with <=3 (quick) / <=4 (thorough) nodes over the 7 verifiers, fifo.Group and filters (true branch, else branch, both), configured through martianhttp.Modifier and queried through verify.Handler/ResetHandler, run on every history of length <=4 (quick) / <=5 for trees of up to 3 nodes and <=4 for 4-node trees (thorough) over {traffic messages making each expectation met/unmet incl. API-marked ones, GET verify, POST reset} against a per-verifier list model. Part 2: 2-4 thread scenarios (traffic, query, reset) under the gosim scheduler, all interleavings for the small ones and preemption-bounded for the rest, interval oracle (nothing lost, duplicated, phantom or stale). Part 3 (auxiliary, free-running -race on the unrewritten tree): the same bodies, race reports in martian code are violations.",
         "One filter type; same-kind leaves share parameters; the race pass is sampling (auxiliary, only because the statement says 'free of data races').",
         "bounded-exhaustive program x history enumeration + stateless schedule enumeration (gosim) + auxiliary race-detector pass", "gosim", "DESIGN.md §7 C13"),
 "C14": ("model_checking",
         "Exhaustive enumeration of header multisets (Connection lines with comma lists over 6 tokens, fixed hop-by-hop subsets, listed and unlisted end-to-end headers, 12 Via chains incl. this instance at every position/line, X-Forwarded-* variants, Content-Length / Transfer-Encoding combinations, protocol/address/URL environments) as a union of full sub-products, for requests and responses, run on the real httpspec stack with a test context and a stated subset through the real proxy over loopback; reference model from the statement (hop-by-hop removal, untouched other headers, exactly one appended Via, X-Forwarded-* semantics, loop => 400 and not sent upstream, framing errors flagged); failures are minimised factor by factor into signatures.",
         "Union of sub-products rather than the full product; Proxy-Connection treated as don't-care; requests net/http itself refuses are counted, not judged.",
         "bounded-exhaustive input enumeration against a reference model", "enum", "DESIGN.md §7 C14"),
 "C15": ("model_checking",
         "Messages parsed from generated wire bytes (request/response x body sizes 0..65537 (1 MiB thorough) x Content-Length/chunked(chunk lists, 0-2 trailers)/close-delimited x 7 content codings incl. corrupt x 10 content types incl. form/multipart/binary; header-shape space) are run through 13 logger variants (HAR x 4 capture options, marbl stream/modifier, text logger x headersOnly x decode, bare snapshots) and serialised 7 ways; output must be byte-identical to an unlogged twin and the logger must not fail; snapshots must re-parse to the original; skip-logging must record nothing, whatever other context operations precede or follow the mark.",
         "Chunk boundaries are not compared; only announced trailers.",
         "bounded-exhaustive input/configuration enumeration with a differential (unlogged twin) oracle", "enum", "DESIGN.md §7 C15"),
 "C16": ("model_checking",
         "The C15 message space x 4 capture options is logged by har.Logger; every exported entry is compared with ground truth computed independently from the wire bytes (method, URL, version, status, header list, query, cookies, redirect, de-chunked undecoded post data incl. parsed form/multipart parameters, fully decoded response content and size) and the export handler's JSON is unmarshalled and compared entry by entry (non-UTF-8 preserved).",
         "bodySize/headersSize not compared; corrupt gzip: metadata only.",
         "bounded-exhaustive input/configuration enumeration against an independent reference computation", "enum", "DESIGN.md §7 C16"),
 "C17": ("model_checking",
         "All operation sequences up to length 6 (quick) / 7 (thorough) over a 9-operation alphabet are run on the real har.Logger and compared step by step with a list model; 2-3 thread scenarios on colliding ids are run under the gosim scheduler with every interleaving of the logger's lock operations enumerated and each recorded history checked for linearizability against the same model; an auxiliary free-running -race pass covers unsynchronised accesses.",
         "Scheduling points are synchronisation operations only (lock/atomic/channel); ids {a,b,c}; bodiless request/response shapes.",
         "exhaustive operation-sequence enumeration + stateless schedule enumeration (gosim) with linearizability oracle", "gosim", "DESIGN.md §7 C17"),
 "C01": ("model_checking",
         "Bounded-exhaustive enumeration of request sequences through the real proxy with its default http.Transport over in-memory connections (and a loopback-TCP re-run subset): request shapes (methods x target forms x header sets x body framings x sizes x write segmentations x HTTP versions), origin response shapes (statuses x framings x sizes x header sets x close), sequential and pipelined sequences up to length 2/3, concurrent connections; reference model = identity relay modulo hop-by-hop, evaluated on the bytes the origin received and the raw response stream the client parsed.",
         "The transport's internal goroutine schedules run free (not explored); sizes up to 4 MiB; in-memory conn validated against loopback TCP on a subset.",
         "bounded-exhaustive history/input enumeration against a reference model (worker subprocesses for crash attribution)", "enum", "DESIGN.md §7 C01"),
 "C03": ("fault_enumeration",
         "Every truncation offset of several origin response scripts (fresh and reused upstream connection, GET/POST), every dial outcome, every prefix of 20 non-HTTP origin answers and of 35 client byte streams plus one-byte corruptions of valid requests, and (against a MITM-enabled proxy) 23 CONNECT shapes x 9 continuations incl. ClientHello with/without SNI truncated at every offset, each followed by a marker request; oracle from the statement (well-formed 502 + Warning seen by the response modifier, or detectably incomplete response then close; no bytes of response 2 inside response 1; connection usable after 502; proxy process alive).",
         "Origins that stall without closing are not modelled; transport schedules run free.",
         "exhaustive fault-point enumeration (truncation offsets, prefixes, corruptions) against a reference model", "enum", "DESIGN.md §7 C03"),
 "C05": ("model_checking",
         "All histories listener kind {plain, traffic-shaped, transparent TLS} x tunnel content {TLS, plaintext} x authority port x 1..2/3 requests x target form {origin-form, absolute http, absolute https, no Host} x hijack position/handle run once each through the real proxy with mitm.Config over loopback TCP and real crypto/tls; recording modifiers and a sniffing origin decide scheme, host, secure flag, TLS state identity (exported keying material), upstream TLS, session sharing and what a hijacker can exchange with the TLS client.",
         "Sequential histories (no schedule exploration); Go's TLS stack only.",
         "bounded-exhaustive history enumeration against a reference model", "enum", "DESIGN.md §7 C05"),
 "C06": ("model_checking",
         "Part 1: exhaustive host spellings (label pool x 1..3/4 labels, IPv4/IPv6 literals, ports, brackets) x SNI {absent, equal, different} x entry point, each chain verified with x509 against the CA, exact SAN, organisation, key possession, subset with a real TLS handshake. Part 2: all issue/request histories over clock shifts around the validity window on the virtual clock. Part 3: 2-3 concurrent requesters on empty/primed/expired caches, all interleavings of the cache lock operations under gosim; an auxiliary free-running -race pass covers unsynchronised accesses.",
         "x509 verification uses the real clock (time is shifted at issuance); unsynchronised accesses are not interleaved.",
         "bounded-exhaustive input/history enumeration + stateless schedule enumeration (gosim, unbounded)", "gosim", "DESIGN.md §7 C06"),
 "C02": ("model_checking",
         "The real proxy.go/context.go run over simnet under the gosim scheduler with recording modifiers: plain mode with all modifier-behaviour sequences (pass, request error, response error, skip round trip, round-trip error, hijack in request/response modifier) up to length 2/3, blind CONNECT, MITM with plaintext and with TLS inside, optional second concurrent connection; every schedule with <=1 (quick) / <=2 (thorough) deviations; oracle from the recorded calls: exactly-once request/response modifier per exchange on the same request and context, unique context ids, session per connection, Warning surfacing, skip-round-trip, no context left retrievable (hook VerifLiveContexts), no proxy I/O after a hijack and prompt close.",
         "Round trips go through a synchronous harness RoundTripper; TLS is crypto/tls unmodified on simnet; deviation-bounded.",
         "stateless schedule enumeration of the implementation (gosim) with deviation bounding", "gosim", "DESIGN.md §7 C02"),
 "C07": ("model_checking",
         "The real proxy.go (sync/chan/select/go/time rewritten into scheduler operations) serves a simnet listener; 1..3 connections are parked at each of the six progress points (all sorted placements), Close() runs in its own thread, the parked exchanges are released in every order, late connections race with or follow Close(); every schedule with <=2 (quick) / <=3 (thorough) deviations is executed and each clause of the statement is evaluated on the recorded event order (response completeness and Connection: close marking, no modifier after Close returned, connections closed and handlers finished at the instant Close returns, late connections unserved, no panic/deadlock).",
         "Round trips go through a synchronous harness RoundTripper; simnet is the TCP model; deviation-bounded, not all interleavings.",
         "stateless schedule enumeration of the implementation (gosim) with deviation bounding", "gosim", "DESIGN.md §7 C07"),
 "C04": ("model_checking",
         "The real CONNECT path of proxy.go runs over simnet under the gosim scheduler: all early-data placements x chunk lists in both directions at once x who finishes first x full/half close x direct or downstream-proxy route x request/response conversations; the simnet TCP model is re-validated against loopback TCP on every run; every schedule with <=2 (quick) / <=3 (thorough) deviations; oracle at the first quiescent point with zero virtual time elapsed: exact byte streams, prompt EOF on the other end, both connections released.",
         "simnet models TCP semantics (coalescing reads, FIN, write-after-close); pauses are interleavings; sizes up to 32769 bytes (1 MiB thorough).",
         "stateless schedule enumeration of the implementation (gosim) with deviation bounding and virtual time", "gosim", "DESIGN.md §7 C04"),
 "C18": ("model_checking",
         "The real proxy serves a trafficshape.Listener over simnet under the gosim scheduler with virtual time (bucket spin loops are parked by the engine until a drain tick): close actions at offsets {0,1,n-1,n,n+1,5000,6000}+range start x sizes {0,1,600,4095,4096,4097,10000} x range starts {0,1,4096} x body read chunkings; halts and throttles (single, adjacent, gap, max bandwidth), latency, non-matching URL; counts {1,2,-1} over sequential and concurrent connections; shared finite global bandwidth over sequential and concurrent connections; reconfiguration after accept and in flight (schedule exploration finds lock-order deadlocks); 35 invalid configurations incl. valid defaults with invalid shapes; oracle = reference model of delivered bytes, cut position, minimum virtual delay, count consumption, unchanged shaping after a rejected configuration, bucket threads released.",
         "Virtual time advances only at quiescence (timers due now fire eagerly); Content-Length framing only.",
         "bounded-exhaustive configuration/input enumeration + schedule enumeration (gosim) with virtual time", "gosim", "DESIGN.md §7 C18"),
 "C19": ("model_checking",
         "Part 1: exhaustive message shapes x body sizes x consumer read-buffer sequences x early close x body errors logged through the real marbl Stream/Modifier (inside gosim executions), frames re-parsed with marbl.Reader and an independent parser. Part 2: 2-3 threads logging concurrently to one stream under the gosim scheduler (all interleavings for the small scenarios, deviation-bounded for the rest): whole-frame writes, contiguous ordered data indices, no deadlock. Part 3: frame-grammar byte strings with every length field from {0,1,2,2^31-1,2^31,2^32-2,2^32-1}, truncation at every offset, and all short strings over a 6-byte alphabet fed to marbl.Reader in memory-capped worker processes.",
         "Concurrent Reads of one body are out of scope; the agent-written explorer branches only after the sequential set-up phase.",
         "bounded-exhaustive input enumeration + stateless schedule enumeration (gosim)", "gosim", "DESIGN.md §7 C19"),
 "C20": ("model_checking",
         "Exhaustive enumeration of contents x Range header strings from a grammar (units, 1..3 specs from a 36-spec pool incl. out-of-bounds, reversed, huge, malformed) for the body and static modifiers, and of all request paths of <=3/4 segments over 8 dotted/encoded spellings x URL forms x explicit path maps for the static modifier, against an RFC 7233 reference model and a root directory with sentinel files outside it; allocation-heavy cases run in memory-capped worker processes.",
         "Sizes {0,1,2,10,65536}; unit pool {bytes=,Bytes=,items=,none}; ModifyRequest not exercised.",
         "bounded-exhaustive input enumeration against a reference model", "enum", "DESIGN.md §7 C20"),
}
# what later rounds added to each check (appended to the level text)
ADD = {
 "C20": "Later additions: Audit additions (checks/c20/AUDIT.md): small-domain grid, sizes at the code's constants, histories on one modifier instance, upstream 206/416/404/chunked/multipart responses, boundaries, extended path alphabet with sibling directories and several constructors.",
 "C12": "Later additions: Audit additions (checks/c12/AUDIT.md): url.RegexFilter / header.RegexFilter / port.Filter alphabets, extreme priorities and wide groups, wrong-type JSON and near-miss scopes, non-POST methods and failing request bodies, alternative scope spellings.",
 "C11": "Later additions: Audit additions (checks/c11/AUDIT.md): the real h2 relay end to end (wire family), empty non-final DATA frames, duplex streams, grpc-encoding header variants.",
 "C06": "Later additions: Audit additions (checks/c06/AUDIT.md): reuse of one tls.Config, expiry via SNI, setters between requests, TLS 1.2 clients, edge spellings, failing signers, more race scenarios.",
 "C05": "Later additions: Audit additions (checks/c05/AUDIT.md): nested TLS, transparent layerings, authority spellings, request/response traffic shapes through the decrypted connection, upstream and handshake failures, mitm.Config variants, downstream proxy.",
 "C18": "Later additions: Several shapes with disjoint URL patterns; keep-alive sequences of matching / other-URL requests on one shaped connection; response heads larger than the write buffer; concurrent connections released into their shaped writes at the same instant.",
 "C17": "Later additions: Long logs (1..200/1000 completed exchanges plus a pending one, then every short suffix); unlock scheduling points in the all-interleavings part; the race pass exports while recording and serialises exported logs while pending entries complete.",
 "C08": "Later additions: Header blocks larger than a frame (default and raised maximum frame size, with priority, duplex and stalled-receiver variants), receivers shrinking their header table, PUSH_PROMISE behind window-blocked DATA, connection-window blocking; oracles: no frame above the announced maximum frame size, no frame inside an open header block.",
 "C01": "Later additions: request 1 plus a prefix of request 2 in one write (7 cut points; response 1 must arrive before the rest is sent); idle-timeout family (SetTimeout, gaps below the timeout whose sum exceeds it); interleaved client connections; origin responses split into several writes. Audit additions (checks/c01/AUDIT.md): target shapes and extension methods, 24 more statuses, HTTP/1.0 origins, trailers, interim responses, downstream proxy, sequential client connections, client half-close, Expect: 100-continue without an answer.",
 "C02": "Later additions: composable behaviours (dial error, round-trip error, skip, one-/multi-line modifier errors, hijack, skip combined with the other context marks in both orders, a RoundTripper answering on req.Clone()), pipelined clients; auxiliary free-running -race pass with a real proxy asserting id uniqueness under parallel load. A downstream proxy in blind mode; skip-round-trip on a blind CONNECT; sessions and pools start empty in every execution (vsync.Pool).",
 "C03": "Later additions: configuration dimension {no modifier, har.Logger, martianlog.Logger, marbl modifier} in the truncation family; two-write cuts of the origin's bytes; second request already pipelined when the fault happens. Audit additions (checks/c03/AUDIT.md): origins failing during the upload, repeated faults on one connection, downstream-proxy answers cut at every offset, two intercepted requests per TLS session, silent clients against the proxy timeout, unsolicited bytes after a complete response.",
 "C04": "Later additions: simultaneous chunks above the bufio size in both directions; silent periods of 11 s / 200 s of virtual time before the last chunks (deadlines left armed), all routes. The client resets or closes while the proxy is still dialling.",
 "C07": "Later additions: the idle and mid-head points reached on a kept-alive connection, with the partial head pipelined behind the previous request, and with a client that never completes the head.",
 "C09": "Later additions: histories after a third stream used up 65531/65535 bytes of the connection window (connection window is the binding constraint), MAX_FRAME_SIZE raise/lower/default histories, bursts toward a stalled receiver. Cross-talk histories (the DATA sender's own SETTINGS / WINDOW_UPDATE), credit granted before the first frame relayed on a stream, SETTINGS frames repeating INITIAL_WINDOW_SIZE.",
 "C10": "Later additions: write failures whose failing write is the WINDOW_UPDATE acknowledging a DATA frame or the forwarded DATA itself, with a PING pending in the other direction for the same peer. Sessions ending before they are set up (mid preface, before SETTINGS).",
 "C13": "Later additions: API-marked requests whose query string ParseForm rejects; aliasing scenarios for nested MultiErrors.",
 "C14": "Later additions: auxiliary free-running -race pass pushing concurrent messages through one spec stack with direct assertions. Audit additions (checks/c14/AUDIT.md): interleaved exchanges on one stack, the user group, several stack instances, Connection / framing spellings, environments, keep-alive sequences and CONNECT through the real proxy.",
 "C15": "Later additions: failing-body family (every message of a sub-space cut at every structural offset of its body, sender closes or resets; pass-through variants must equal the unlogged twin, buffering variants must still fail and write only a prefix); multi-member gzip bodies; context-operation histories around skip-logging. Audit additions (checks/c15/AUDIT.md): edge message space, histories through one logger / one reused MessageView, stacks of two loggers on one message.",
 "C16": "Later additions: multi-member gzip bodies. Audit additions (checks/c16/AUDIT.md): wider body space in quick, independent and repeated option settings, sessions of 3-4 exchanges through one logger with different response arrival orders, judged corrupt gzip.",
 "C19": "Later additions: concurrent readers of 40000/70000-byte bodies with 32 KiB / 64 KiB buffers (frames of tens of kilobytes).",
}
NOT_YET = "check not built yet in this round (planned, see DESIGN.md section 7); not claimed"

checks, na = [], []
for p in props:
    pid = p["id"]
    if pid in CHECKS:
        cat, text, note, tech, eng, ref = CHECKS[pid]
        if pid in ADD:
            text = text + " " + ADD[pid]
        checks.append({
            "property_id": pid,
            "quick_cmd": f"./check {pid} quick",
            "thorough_cmd": f"./check {pid} thorough",
            "evidence_file": f"evidence/{pid}.json",
            "replay_cmd_template": f"./check {pid} quick --replay {{path}}",
            "engine": eng,
            "level_claimed": {"category": cat, "text": text, "design_ref": ref},
            "level_note": note,
            "technique": tech,
        })
    else:
        na.append({"property_id": pid, "reason": NOT_YET})

m = {
 "version": 1,
 "setup_cmd": "./setup.sh",
 "hooks": {
   "guard": "verif",
   "enable": "go build -tags verif -overlay /verif/.build/<check>/overlay.json (overlay produced by /verif/vrewrite from /repo's working tree; add-only hook files live in /verif/hooks and are mounted by the overlay, nothing is committed to /repo)",
   "baseline_off_cmd": "cd /repo && GOFLAGS=-mod=mod GOPROXY=off GOSUMDB=off go test -vet=off -count=1 -timeout 25m ./...",
   "source_commits": [],
   "add_only": True,
 },
 "engines": [
   {"name": "gosim", "path": "rt/vrt, rt/vsync, rt/vatomic, rt/vtime, rt/simnet, vrewrite", "serves_properties": sorted(k for k, v in CHECKS.items() if v[4] == "gosim"),
    "kind_free_text": "hand-written stateless model checker for Go: source rewriter (sync/atomic/time/go/chan/select -> scheduler runtime), one-thread-at-a-time scheduler, deviation-bounded or unbounded DFS over choice sequences, virtual time, in-memory network"},
   {"name": "enum", "path": "lib", "serves_properties": sorted(k for k, v in CHECKS.items() if v[4] == "enum"),
    "kind_free_text": "bounded-exhaustive enumeration of inputs / operation histories / fault offsets on the unmodified code against Go reference models"},
 ],
 "checks": checks,
 "not_applicable": na,
 "notes": "See DESIGN.md. known_findings.txt lists genuine defects recorded rather than repaired; seeded/ holds deliberate property-breaking changes used to validate the checks.",
}
json.dump(m, open(os.path.join(ROOT, "MANIFEST.json"), "w"), indent=1)
print("claimed:", [c["property_id"] for c in checks])
