#!/usr/bin/env python3
"""Regenerates MANIFEST.json from the table below (keeps it valid at all times)."""
import json, os
ROOT = os.path.dirname(os.path.abspath(__file__))
props = [json.loads(l) for l in open(os.path.join(ROOT, "properties.jsonl"))]

# id -> (level category, level text, note, technique, engine, design_ref)
CHECKS = {
 "C17": ("model_checking",
         "All operation sequences up to length 6 (quick) / 7 (thorough) over a 9-operation alphabet are run on the real har.Logger and compared step by step with a list model; 2-3 thread scenarios on colliding ids are run under the gosim scheduler with every interleaving of the logger's lock operations enumerated and each recorded history checked for linearizability against the same model.",
         "Scheduling points are synchronisation operations only (lock/atomic/channel); ids {a,b,c}; bodiless request/response shapes.",
         "exhaustive operation-sequence enumeration + stateless schedule enumeration (gosim) with linearizability oracle", "gosim", "DESIGN.md §7 C17"),
}
NOT_YET = "check not built yet in this round (planned, see DESIGN.md section 7); not claimed"

checks, na = [], []
for p in props:
    pid = p["id"]
    if pid in CHECKS:
        cat, text, note, tech, eng, ref = CHECKS[pid]
        checks.append({
            "property_id": pid,
            "quick_cmd": f"./check {pid} quick",
            "thorough_cmd": f"./check {pid} thorough",
            "evidence_file": f"evidence/{pid}.json",
            "replay_cmd_template": f"./check {pid} quick --replay {{path}}",
            "engine": eng,
            "level_claimed": {"category": cat, "text": text, "design_ref": ref},
            "level_note": note,
            "technique": tech,
        })
    else:
        na.append({"property_id": pid, "reason": NOT_YET})

m = {
 "version": 1,
 "setup_cmd": "./setup.sh",
 "hooks": {
   "guard": "verif",
   "enable": "go build -tags verif -overlay /verif/.build/<check>/overlay.json (overlay produced by /verif/vrewrite from /repo's working tree; add-only hook files live in /verif/hooks and are mounted by the overlay, nothing is committed to /repo)",
   "baseline_off_cmd": "cd /repo && GOFLAGS=-mod=mod GOPROXY=off GOSUMDB=off go test -vet=off -count=1 -timeout 25m ./...",
   "source_commits": [],
   "add_only": True,
 },
 "engines": [
   {"name": "gosim", "path": "rt/vrt, rt/vsync, rt/vatomic, rt/vtime, rt/simnet, vrewrite", "serves_properties": sorted(k for k, v in CHECKS.items() if v[4] == "gosim"),
    "kind_free_text": "hand-written stateless model checker for Go: source rewriter (sync/atomic/time/go/chan/select -> scheduler runtime), one-thread-at-a-time scheduler, deviation-bounded or unbounded DFS over choice sequences, virtual time, in-memory network"},
   {"name": "enum", "path": "lib", "serves_properties": sorted(k for k, v in CHECKS.items() if v[4] == "enum"),
    "kind_free_text": "bounded-exhaustive enumeration of inputs / operation histories / fault offsets on the unmodified code against Go reference models"},
 ],
 "checks": checks,
 "not_applicable": na,
 "notes": "See DESIGN.md. known_findings.txt lists genuine defects recorded rather than repaired; seeded/ holds deliberate property-breaking changes used to validate the checks.",
}
json.dump(m, open(os.path.join(ROOT, "MANIFEST.json"), "w"), indent=1)
print("claimed:", [c["property_id"] for c in checks])
